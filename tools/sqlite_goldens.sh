#!/bin/bash
# Runs the repository's own SQLite integration goldens (not part of the pinned pytest suite) against a tree.
# usage: tools/sqlite_goldens.sh [repo_dir]   -- prints PASS/FAIL per test; scratch cwd so nothing is written into the tree
R="${1:-/repo}"
W=$(mktemp -d /var/tmp/vf-gold-XXXX); trap 'rm -rf $W' EXIT
cd "$W"
pass=0; fail=0
for t in sqlite_functors_test sqlite_nil_test sqlite_flat_recursion_test sqlite_winmove_test sqlite_shortest_path_test sqlite_records_test sqlite_is_test sqlite_record_assembler sqlite_assignment_test sqlite_unwrapping_test sqlite_array_sub_test sqlite_combine_test sqlite_funcs_test sqlite_math_test sqlite_array_test sqlite_groupby_test sqlite_in_expr_test sqlite_recursion sqlite_rec_depth sqlite_rec_functor sqlite_pagerank sqlite_composite_test sqlite_reachability sqlite_element_test sqlite_functor_over_constant_test sqlite_subquery_test sqlite_test sqlite_deep_recursion_test; do
  cmd=run; [ "$t" = sqlite_deep_recursion_test ] && cmd=run_in_terminal
  out=$(cd "$W" && LOGICA_TERMINAL_ONELINE=no timeout 120 /venv/bin/python "$R/logica.py" "$R/integration_tests/$t.l" $cmd Test 2>&1)
  if [ "$cmd" = run_in_terminal ]; then out=$(echo "$out" | grep -E '^[+|]' | tail -n +1); fi
  if [ "$(echo "$out" | sed 's/[[:space:]]*$//')" = "$(sed 's/[[:space:]]*$//' "$R/integration_tests/$t.txt")" ]; then pass=$((pass+1)); else fail=$((fail+1)); echo "FAIL $t"; fi
done
echo "goldens: pass=$pass fail=$fail"
