import sys, random, time, collections
sys.path.insert(0, '/verif')
from vf.core import repo; repo.setup_path()
from vf.gen import progen, printer
from vf.mon import pipeline
from vf.ref import evaluator
from vf.checks import semantic, c01
pipeline.enable_library_memo()
n=int(sys.argv[1]); seed=int(sys.argv[2])
rows=[]
for i in range(n):
  rng = random.Random(seed*100000+i)
  prog = progen.generate(rng, c01.features_for(i, rng)); text,_ = printer.program_text(prog)
  rules,bad = pipeline.parse_program(text)
  if bad: continue
  ev = evaluator.Evaluator(prog)
  te=tp=0
  for p in semantic.concrete_preds(prog):
    t=time.time()
    try: ev.table(p)
    except Exception as e: pass
    te+=time.time()-t
    t=time.time(); out=pipeline.run(text,p,rules=rules); tp+=time.time()-t
  rows.append((te+tp,te,tp,i,len(text)))
rows.sort(reverse=True)
print('total', sum(r[0] for r in rows), 'eval', sum(r[1] for r in rows), 'pipe', sum(r[2] for r in rows))
for r in rows[:8]: print(r)
