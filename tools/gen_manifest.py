#!/venv/bin/python
"""Regenerates MANIFEST.json from the table below (single source of truth for what is claimed)."""
import json
import os

ROOT = os.path.dirname(os.path.dirname(os.path.abspath(__file__)))

CHECKS = {
    'C01': dict(
        category='exploration', design_ref='DESIGN.md 4/C01',
        technique='runtime monitor: generated programs run through the real compile+SQLite pipeline, rows compared with an independent reference evaluator',
        text=('Every predicate of every generated core-fragment program is compiled by the real pipeline (same calls as '
              '`logica.py run`), executed on SQLite and its rows + column names compared as a multiset with an independent '
              'reference evaluator written from the documentation; reach counters (injections, UNION ALL, un-memoized compiles) '
              'are mandatory. Adversarial classes: duplicate rows, computed and repeated elements of `in`, the same functional call repeated over '
              'multi-valued functions, unary minus, calls inside list / record literals, named columns in different orders. Held on the programs '
              'generated, not a proof.'),
        note='trusted: reference evaluator (DESIGN 4.21), SQLite 3.40; fragment excludes / %, floats, composite equality'),
    'C02': dict(
        category='exploration', design_ref='DESIGN.md 4/C02',
        technique='runtime monitor: generated aggregation/negation programs on the real pipeline + SQLite vs an independent reference evaluator; deviation switches classify recorded findings; icontract invariants at a hook on the ArgMin/ArgMax UDF objects',
        text=('Every predicate of generated programs with predicate-level aggregation, correlated and nested aggregating expressions '
              '(clashing local names), negation and implication is executed on SQLite through the real pipeline and compared with the '
              'reference multiset (List as multiset, Set as set, ties as one-of). A mismatch is reported unless it is fully explained by '
              'a deviation switch that corresponds to an open entry of known_findings.json. K-aggregates (ArgMinK / ArgMaxK) run under '
              'post-conditions on every UDF step (at most K kept, heap root is the worst kept value, kept values are the K best fed so far).'),
        note='trusted: reference evaluator (DESIGN 4.21); zero-key aggregation over no solution is not judged'),
    'C03': dict(
        category='exploration', design_ref='DESIGN.md 4/C03',
        technique='runtime monitor: recursive programs run through the real pipeline (script path and concertina workflow path) on SQLite vs an iterated reference operator; the unfolding style is observed through a wrapper on RecursiveAnalysis',
        text=('Recursive programs from 9 templates at many depths are executed for real (iterative plans through ExecuteLogicaProgram) and compared '
              'with T^(depth+1)(empty) computed by iterating the reference evaluator: exactly for self-recursive, flat and iterative unfolding, '
              'as lower/upper bounds (T^(depth+1) and the least fixpoint) for vertical unfolding of a larger cover. Set-valued counters that never '
              'converge make every application visible at depths > 20.'),
        note='trusted: reference iteration (vf/ref/recursion.py); heavy shapes limited in depth for non-iterative unfolding (exponential SQL size)'),
    'C04': dict(
        category='exploration', design_ref='DESIGN.md 4/C04',
        technique='runtime monitor: programs with functor applications on the real pipeline + SQLite vs (1) a reference evaluator with substitution semantics and (2) the same program with the substitution done by hand at IR level',
        text=('Generated layered programs with 1-4 functor applications (several arguments, swaps, functor of functor result, equal and '
              'different bindings, constant arguments, arguments reached through intermediates and diamonds); every made predicate and every '
              'original predicate is executed and compared with the substitution semantics; made predicates are additionally compared with '
              'an explicitly cloned program. The functor cache is exercised (CallFunctor counter, equal bindings); forced chains F -> Mid -> Inner -> A '
              'are applied twice with different bindings, functors that reach a made predicate through an ordinary one are applied themselves, and '
              'made names sort before / after / between the other names.'),
        note='trusted: reference evaluator; composition of substitutions as in DESIGN 4.21 rule 12'),
    'C06': dict(
        category='exploration', design_ref='DESIGN.md 4/C06',
        technique='runtime differential monitor: every generated / corpus / corrupted input parsed by the Python parser and by the C++ parser built from the current source (ASan+UBSan build in the thorough tier); rule trees compared structurally; libFuzzer (ASan+UBSan) on the C ABI in the thorough tier (crash / sanitizer reports only)',
        text=('Grammar-directed programs covering the productions of docs/syntax.md, programs of the semantic generator, the repository\'s .l corpus, '
              'layout variants and single-token corruptions are parsed under LOGICA_PARSER=PY and =CPP through parse.ParseFile; verdicts '
              '(accept / ParsingException / internal error) and rule trees must agree. A native crash or sanitizer report aborts the shard and is '
              'attributed to the journaled input.'),
        note='trusted: the grammar generator derives only documented forms; number/escape forms outside docs/syntax.md are not generated'),
    'C07': dict(
        category='exploration', design_ref='DESIGN.md 4/C07',
        technique='runtime monitor: metamorphic comparison of a program and its permuted / renamed variants on the real pipeline + SQLite, admissible differences taken from the reference evaluator; icontract invariants at a hook on the ArgMin/ArgMax UDF objects under every arrival order',
        text=('Generated programs and their variants (permuted rules/facts/conjuncts/disjuncts, variables renamed from colliding pools, '
              'predicates renamed) are both executed on SQLite through the real pipeline; rows must be equal as multisets keyed by column '
              'name, only List element order and tie choices being admitted. Fact permutation permutes the arrival order at aggregate UDFs, whose '
              'bounded-heap invariants are checked after every step.'),
        note='trusted: the reference evaluator only for which columns are List-like / tied'),
    'C08': dict(
        category='exploration', design_ref='DESIGN.md 4/C08',
        technique='runtime monitor: metamorphic comparison across all assignments of plan annotations on the real pipeline + SQLite; sqlite authorizer probe shows the plan really changed',
        text=('For generated programs every assignment of @NoInject/@With/@NoWith/@Ground to up to 2 (quick) / 3 (thorough) intermediate '
              'predicates (single-rule predicates and body-less aggregating predicates first) is compiled and executed on SQLite; rows of the annotated predicates and of their readers must equal the '
              'unannotated run (itself compared with the reference). The SQLite authorizer probe must see grounded tables created and read.'),
        note='trusted: admissible differences (List order, ties) from the reference evaluator'),
    'C11': dict(
        category='exploration', design_ref='DESIGN.md 4/C11',
        technique='runtime monitor: metamorphic comparison of re-spelled programs (printer spelling policies + IR rewrites) on the real pipeline + SQLite',
        text=('Each documented shorthand is toggled at all occurrences, at single occurrences and in random mixes on generated programs; '
              'both spellings run through the real pipeline on SQLite and must return the same multisets. Toggles are restricted to the '
              'documented contexts (e.g. `=` only as assignment to a variable, no disjunction inside aggregation).'),
        note='trusted: the printer spells the documented forms; admissible differences from the reference evaluator'),
    'C17': dict(
        category='exploration', design_ref='DESIGN.md 4/C17',
        technique='runtime monitor over histories: runs of compiled programs against one persistent SQLite file, database dumped and hashed between runs, authorizer probe for reads/writes, reference evaluator for contents',
        text=('Histories of 2-6 runs (dependants, grounded predicates themselves, repeats) are executed like `logica.py run` against one database '
              'file; after each run the grounded tables the plan mentions must hold the reference multiset, must have been read by the main '
              'statement, unrelated tables must be untouched, a run of P itself must not write P, repeats must be identical.'),
        note='trusted: reference evaluator; the sqlite authorizer; a dependency the compiler optimises away (unused result) is not demanded'),
    'C18': dict(
        category='exploration', design_ref='DESIGN.md 4/C18',
        technique='runtime monitor: generated programs with @OrderBy/@Limit (both syntaxes) on the real pipeline + SQLite vs reference (sort, take K); ordered comparison for the final predicate, multiset for its readers',
        text=('For generated programs one predicate gets order_by over (a permutation of) all its columns and limit K in {0,1,2,n-1,n,n+1,100}; the '
              'rows it returns are compared in order with the reference, and three consumers (copy, aggregation, negation) must see exactly '
              'the first K rows. Single-rule targets make the annotation the only thing that prevents inlining.'),
        note='trusted: SQLite NULL/str ordering; limit without total order judged only when unambiguous'),
    'C12': dict(
        category='exploration', design_ref='DESIGN.md 4/C12',
        technique='runtime monitor: generated import trees parsed by both parsers (C++ built from the current source; ASan+UBSan build in the thorough tier) and executed on SQLite vs the reference on the flattened program; negative import graphs must raise ParsingException',
        text=('Single-file generated programs (also with functor applications) are split into import trees with same-named private predicates, '
              'exported names that need aliases, shared base names, diamonds and several import roots; every main-file predicate is executed '
              'under both parsers and compared with the reference evaluator on the flattened program; rule sets of the two parsers are compared; '
              'cycles, undefined / unused imports and redefinitions - six fixed templates and one mutation of every valid generated tree, in the main '
              'file or in a module it reaches - must be rejected with ParsingException by both parsers.'),
        note='trusted: reference evaluator; flattening = the generator\'s own single-file program'),
    'C13': dict(
        category='exploration', design_ref='DESIGN.md 4/C13',
        technique='runtime monitor: the same manifest compiled in fresh worker processes under different PYTHONHASHSEED values, different compilation orders (histories), repeated LogicaProgram construction from one rules object and the C++ parser; byte comparison of SQL, deep comparison of the caller-owned rules object; informational module-state differ and audit hook in the workers',
        text=('Every entry of a manifest (generated programs with combines / functors / all recursion modes / imports, other-dialect variants, the '
              'integration test corpus, programs sensitive to the experimental-syntax switch) is compiled in separate interpreter processes under '
              '4 (quick) / 12 (thorough) hash seeds, in 3 different orders, 3 times from one parsed rules object and through the C++ parser; '
              'FormattedPredicateSql and table_to_export_map must be byte-identical (stop-file timestamp masked) and the rules object unchanged.'),
        note='trusted: worker processes are fresh interpreters; only the stop-file timestamp may vary'),
    'C14': dict(
        category='exploration', design_ref='DESIGN.md 4/C14',
        technique='runtime trace monitor: start events recorded at the sql_runner boundary checked offline against a trace specification; icontract post-conditions on the scheduler state; stop-signal fault injection',
        text=('The real Concertina scheduler is run on generated and exhaustively enumerated small configurations with a recording '
              'sql_runner; the start trace is checked against an independent trace specification (inputs first, exactly-once, declared '
              'order and repetitions, stop-signal tolerance, logical termination bound); scheduler-state post-conditions are evaluated '
              'after every RunOneAction. Compiled plans (generated programs with @Ground chains and iterative recursion) are executed '
              'through ExecuteLogicaProgram with run_in_terminal.SqlRunner on SQLite: the calls received by the sql_runner plus the tables '
              'each call is observed to read / create (sqlite authorizer) are checked against what the compiler declared (exactly-once, '
              'repetitions, round-robin order, reads only after production, is_final flags); every subset of <= 4 predicates requested at '
              'once must return for each the table it returns alone (and what the reference evaluator denotes).'),
        note='trusted: the trace specification in vf/ref/sched_spec.py and vf/checks/c14_plans.py; scheduler-only configurations limited to the shapes the compiler emits; stop signals cannot be raised by compiled SQLite plans (copy_to_file is DuckDB-only), they are injected in the scheduler-only workload'),
    'C15': dict(
        category='exploration', design_ref='DESIGN.md 4/C15',
        technique='runtime monitor: metamorphic parse of layout variants (noise only at token boundaries) under both parsers, failing variants minimised to the responsible noise item; invariant check on every heritage-aware string of every parsed tree; string-content variants (contents of a double-quoted literal replaced by separators, brackets, comment markers, keywords, backslashes)',
        text=('Whitespace, newlines, # and /* */ comments (bodies full of separators and quotes) and a trailing semicolon are inserted at token '
              'boundaries of generated programs; the rule tree with span-carrying keys dropped must equal the base tree under both parsers; every '
              'span h must satisfy h.heritage[h.start:h.stop] == str(h) and point into a statement of the program. Failing variants are reduced '
              '(ddmin) to the minimal noise and classified against the recorded mechanisms. `#` comments are also glued to the token before them; the '
              'contents of double-quoted literals are replaced by hostile contents and only that literal\'s value may change.'),
        note='trusted: token boundaries of the generators; removal of optional spaces is not part of the statement and is not judged'),
    'C19': dict(
        category='fault_enumeration', design_ref='DESIGN.md 4/C19',
        technique='runtime fault injection: a fixed catalogue of corruption operators applied to generated valid programs; the outcome of the real compile path is classified (diagnostic / SQL / internal error) and the diagnostic text is checked for the offending item',
        text=('Each of 24 corruption operators is applied once to every generated valid program (whose affected predicate is first confirmed to '
              'compile); compilation of the affected predicate must raise one of the four diagnostic exception types that logica.py catches, the '
              'message or its context must name the offending variable / predicate, and no SQL may be produced.'),
        note='trusted: each operator makes the program certainly invalid (fresh names, predicates defined after the functor); @Ground of missing predicates and undefined body predicates are valid by design'),
    'C16': dict(
        category='exploration', design_ref='DESIGN.md 4/C16',
        technique='runtime monitor: reference-model oracle (term meet) over every observed Unify, exhaustive pair enumeration',
        text=('Every Unify of the real reference_algebra on freshly built reference graphs is observed through '
              'VeryConcreteType on both sides and compared with an independent 60-line meet on plain terms; all ordered '
              'pairs of a 313-term universe (exhaustive), triples over a 56-term core in every constraint order, and '
              'sampled depth-3 terms. Held-on-what-was-observed, not a proof for deeper terms.'),
        note='trusted: the term meet in vf/ref/typemeet.py as the reading of the lattice; clash observed as BadType anywhere inside either side'),
}

CHECKS['C20'] = dict(
    category='exploration', design_ref='DESIGN.md 4/C20',
    technique='runtime monitor: exhaustive small-domain evaluation of built-ins through compiled programs on SQLite vs Python reference definitions; aggregate programs compiled once and executed over every multiset of rows in all insertion orders (row-arrival schedule); icontract invariants at a hook on the ArgMin/ArgMax UDF objects at every step',
    text=('Every scalar built-in is evaluated on exhaustive small domains (50 calls per compiled program) and compared with a reference definition; '
          'predicate-level and expression-level aggregates are compiled once and run on a data table filled with every multiset of up to 4 (5) rows '
          'in every insertion order: each order must match the definition (ties: any admissible answer) and all orders must agree; after every '
          'UDF step the bounded heap must keep at most K pairs, have the worst kept value at its root and hold the K best values fed so far.'),
    note='trusted: reference definitions in vf/ref/builtins.py and aggregates.py; SQLite integer division / C remainder; recorded C02 deviations modelled')

CHECKS['C10'] = dict(
    category='exploration', design_ref='DESIGN.md 4/C10',
    technique='runtime monitor: string round trip through the real pipeline on SQLite; dialect-specific lexers decode the emitted literal and compare statement token shapes for the 7 non-executable dialects; sys.monitoring loop watch bounds flag expansion logically; generated flag graphs vs a model of the documented substitution',
    text=('Strings over an alphabet of every character special to Logica, Python formatting and the eight SQL dialects are placed as fact argument, '
          'list element, record field, ++ operands, flag default, user flag and argv flag; on SQLite the value must come back character for '
          'character; for the other dialects the emitted literal must decode (under that engine\'s lexical rules) to the original and keep the '
          'token shape of a plain string; documented ${flag} expansion: fixed cases incl. recursive flags plus generated acyclic flag graphs (chains, unused '
          'flags, user values, every definition order of four flags) against a model of the substitution, with a logical bound on passes and text size.'),
    note='trusted: lexical rules in vf/mon/sqllex.py; ${...} expansion is documented textual parameterisation')

CHECKS['C09'] = dict(
    category='exploration', design_ref='DESIGN.md 4/C09',
    technique='runtime monitor: generated programs compiled for all 8 dialects; outcome classification (SQL / diagnostic / internal error) and a dialect-aware lexer + scope checker over every emitted statement, calibrated against the real SQLite engine on every SQLite statement',
    text=('Each generated program (half of them with @Ground / @With / @NoInject / @NoWith on intermediates) is compiled for sqlite, duckdb, psql, bigquery, trino, presto, clickhouse and databricks and several predicates; '
          'internal errors are violations; every emitted statement must lex under the engine\'s rules, have balanced brackets, bind every alias.column '
          'to an enclosing FROM alias, define allocated WITH tables before use and leak no placeholder. The checker must agree with SQLite on every '
          'SQLite statement (else the run is a harness error, not a finding).'),
    note='trusted: lexers and scope checker for the seven engines that cannot be executed offline; only text-level well-formedness is claimed')

CHECKS['C05'] = dict(
    category='exploration', design_ref='DESIGN.md 4/C05',
    technique='runtime monitor: generated ground-typed programs through the real type checker (signatures compared with the generator\'s types), run-time values checked against inferred column types, single-point type corruptions compiled under permutations of rules and conjuncts',
    text=('Programs whose column types are ground by construction must be accepted with exactly the generated signatures (sqlite with '
          'type_checking, and psql / duckdb / clickhouse which check by default); values returned by SQLite must inhabit the inferred types; nine '
          'kinds of single-point type corruption must be rejected with TypeErrorCaughtException under every tried order of the corrupted rule\'s '
          'conjuncts and of the rules.'),
    note='trusted: the generator\'s typing discipline; rendering via reference_algebra.RenderType')

NOT_YET = 'check not built yet in this session (planned in DESIGN.md section 4); not claimed until it runs clean on the unchanged tree'


def main():
  props = [json.loads(l) for l in open(os.path.join(ROOT, 'properties.jsonl'))]
  checks = []
  na = []
  for p in props:
    pid = p['id']
    c = CHECKS.get(pid)
    if not c:
      na.append({'property_id': pid, 'reason': NOT_YET})
      continue
    checks.append({
        'property_id': pid,
        'quick_cmd': './check %s --tier quick' % pid,
        'thorough_cmd': './check %s --tier thorough' % pid,
        'evidence_file': 'evidence/%s.json' % pid,
        'replay_cmd_template': './check %s --replay {path}' % pid,
        'level_claimed': {'category': c['category'], 'text': c['text'], 'design_ref': c['design_ref']},
        'level_note': c['note'],
        'technique': c['technique'],
    })
  m = {
      'version': 1,
      'setup_cmd': './setup.sh',
      'hooks': {
          'guard': 'LOGICA_VERIF',
          'enable': 'no source hooks: all monitors are attached from the harness at run time (wrappers, sqlite authorizer/trace, sys.monitoring, audit hooks, icontract); LOGICA_VERIF is reserved and read by no source file',
          'baseline_off_cmd': 'cd /repo && /venv/bin/python -m pytest -ra -q -p no:cacheprovider --timeout=900 --continue-on-collection-errors',
          'source_commits': [],
          'add_only': True,
      },
      'checks': checks,
      'not_applicable': na,
      'notes': 'Runtime monitoring only. ./check <ID> honours VERIF_SEED, VERIF_TIER, VERIF_REPO. Exit 0 held / 1 VIOLATION / 2 INCONCLUSIVE / 3 harness error. Known findings: known_findings.json.',
  }
  with open(os.path.join(ROOT, 'MANIFEST.json'), 'w') as f:
    json.dump(m, f, indent=1)
    f.write('\n')
  print('MANIFEST.json: %d checks, %d not claimed' % (len(checks), len(na)))


if __name__ == '__main__':
  main()
