#!/bin/bash
# usage: tools/run_seeded.sh <seeded/ID-dir> [PROP ...]   -- runs the quick check(s) (default: the property named in
# meta.json) against a scratch copy of /repo with seeded/<dir>/patch.diff applied. Prints the verdict lines.
HERE="$(cd "$(dirname "${BASH_SOURCE[0]}")/.." && pwd)"
D="$(readlink -f "$1")"; shift
PROPS="$@"
[ -z "$PROPS" ] && PROPS=$(jq -r '.property' "$D/meta.json")
for P in $PROPS; do
  SHOW=2 "$HERE/mutants/run_mutant.sh" "$D/patch.diff" "$P" "${TIER:-quick}"
done
