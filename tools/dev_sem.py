"""dev: generate N programs with features, compare; print failures."""
import sys, random, json, collections, traceback
sys.path.insert(0, '/verif')
from vf.core import repo; repo.setup_path()
from vf.gen import progen, printer
from vf.mon import pipeline
from vf.ref import evaluator
from vf.checks import semantic
pipeline.enable_library_memo()
n = int(sys.argv[1]); seed = int(sys.argv[2]); feats = json.loads(sys.argv[3]) if len(sys.argv) > 3 else {}
stats = collections.Counter()
shown = 0
for i in range(n):
  rng = random.Random(seed * 100000 + i)
  try:
    prog = progen.generate(rng, feats)
    text, _ = printer.program_text(prog)
  except Exception:
    stats['gen_error'] += 1
    if shown < 3: traceback.print_exc(); shown += 1
    continue
  rules, bad = pipeline.parse_program(text)
  if bad:
    stats['parse_' + bad.kind] += 1
    if shown < 8:
      print('--- PARSE', bad.exc_type, bad.message[:300]); print(text); shown += 1
    continue
  ev = evaluator.Evaluator(prog)
  for p in semantic.concrete_preds(prog):
    try:
      res = semantic.check_predicate(prog, text, rules, p, ev)
    except evaluator.Unsupported as e:
      stats['unsupported'] += 1
      if shown < 8:
        print('--- UNSUPPORTED', p, e); print(text); shown += 1
      continue
    stats[res.status] += 1
    if res.status == 'ok' and res.nontrivial: stats['ok_nontrivial'] += 1
    if res.status not in ('ok', 'discarded') and shown < 8:
      shown += 1
      print('--- %s pred=%s: %s' % (res.status, p, res.detail)); print(text)
      if res.expected is not None: print('EXPECTED', semantic.compare.show_table(res.expected)[:20])
      if res.outcome is not None and res.outcome.kind == 'rows': print('OBSERVED', res.outcome.columns, res.outcome.rows[:20])
print(dict(stats))
