#!/venv/bin/python
"""Rewrites the block between <!-- MATRIX-BEGIN --> and <!-- MATRIX-END --> of DESIGN.md from seeded/*/meta.json and
mutants/RESULTS.txt (written by mutants/run_all.sh)."""
import glob, json, os, re
root = os.path.dirname(os.path.dirname(os.path.abspath(__file__)))
out = []
out.append('Two sets of deliberate breaks are kept, both made of realistic edits that keep the pinned 40-test suite green.\n')
out.append('**(a) `mutants/` - my own breaks** (written while building each check, so they only show that the monitor reaches the '
           'mechanism it is anchored in; `neg_control*` patches preserve the semantics and must stay silent). '
           '`mutants/run_all.sh` applies each to a scratch copy of /repo and runs the property\'s quick check:\n')
res = os.path.join(root, 'mutants', 'RESULTS.txt')
rows = {}
if os.path.exists(res):
  for line in open(res):
    m = re.match(r'(OK|MISS) (C\d\d) (\S+) rc=(\d+) want=(\d+)', line)
    if m:
      rows[(m.group(2), m.group(3))] = m.group(1)
if rows:
  out.append('| property | mutants caught / total (negative controls silent) | missed |\n|---|---|---|\n')
  for p in sorted({k[0] for k in rows}):
    items = {k[1]: v for k, v in rows.items() if k[0] == p}
    pos = {k: v for k, v in items.items() if not k.startswith('neg_control')}
    neg = {k: v for k, v in items.items() if k.startswith('neg_control')}
    missed = [k for k, v in items.items() if v != 'OK']
    out.append('| %s | %d / %d%s | %s |\n' % (p, sum(1 for v in pos.values() if v == 'OK'), len(pos),
               (' (%d / %d)' % (sum(1 for v in neg.values() if v == 'OK'), len(neg))) if neg else '', ', '.join(missed) or '-'))
else:
  out.append('(no mutants/RESULTS.txt yet)\n')
out.append('\n**(b) `seeded/` - changes written by independent sub-agents.** Each agent got only the JSON text of one property and its own '
           'scratch git worktree of /repo (nothing from /verif) and was asked for two changes that break the property, keep the suite green and '
           'need something specific to manifest, with a demonstration. I re-confirmed every one in a fresh worktree (`tools/verify_seed.sh`: '
           'demo passes on the clean tree, fails with the patch, suite keeps its 40 passes) before keeping it. `tools/seed_matrix.sh` runs the '
           'quick check of the property the change breaks (and the cross-property checks one would expect to notice it) against the patched '
           'tree; the first round (before any strengthening) and the final round are both shown. "cross" = noticed only by another '
           'property\'s check.\n\n')
first = {}
fr = os.path.join(root, 'seeded', 'FIRST_ROUND.json')
if os.path.exists(fr):
  first = json.load(open(fr))
out.append('| seeded change | what it needs to manifest | first round | final: own check | final: other checks |\n|---|---|---|---|---|\n')
n = caught_own = caught_any = 0
for d in sorted(glob.glob(os.path.join(root, 'seeded', 'C??-?'))):
  m = json.load(open(os.path.join(d, 'meta.json')))
  sid, prop = m['id'], m['property']
  det = m.get('detection', {})
  own = det.get(prop, {})
  def verdict(x):
    if 'verdict' in x:
      return x['verdict']
    return 'caught' if x.get('rc') == 1 else ('missed' if x.get('rc') == 0 else '?')
  others = ', '.join('%s %s' % (k, verdict(v)) for k, v in sorted(det.items()) if k != prop) or '-'
  n += 1
  if verdict(own) == 'caught':
    caught_own += 1
  if any(verdict(v) == 'caught' for v in det.values()):
    caught_any += 1
  out.append('| %s | %s | %s | %s | %s |\n' % (sid, m.get('needs_to_manifest', '')[:170].replace('|', '/'), first.get(sid, '-'), verdict(own), others))
out.append('\nFinal round: %d of %d seeded changes are caught by the quick check of the property they break, %d of %d by some quick check.\n' % (caught_own, n, caught_any, n))
notes = os.path.join(root, 'seeded', 'NOTES.md')
if os.path.exists(notes):
  out.append('\n' + open(notes).read())
p = os.path.join(root, 'DESIGN.md')
s = open(p).read()
a, b = s.index('<!-- MATRIX-BEGIN -->'), s.index('<!-- MATRIX-END -->')
s = s[:a] + '<!-- MATRIX-BEGIN -->\n' + ''.join(out) + s[b:]
open(p, 'w').write(s)
print('DESIGN.md matrix rewritten: %d seeds' % n)
