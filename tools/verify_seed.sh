#!/bin/bash
# usage: tools/verify_seed.sh <src-dir> <k> <PROP> <seed-id> "<needs text>" [CHECKPROPS...]
# Confirms an independently written change (patch<k>.diff + demo<k>.py in <src-dir>): demo passes on a clean scratch
# worktree of /repo HEAD, pinned suite still has its 40 passes with the patch, demo fails with the patch; then runs the
# quick check(s) against the patched worktree and stores everything under /verif/seeded/<seed-id>/.
set -u
SRC="$1"; K="$2"; PROP="$3"; ID="$4"; NEEDS="$5"; shift 5
CHECKS="$@"; [ -z "$CHECKS" ] && CHECKS="$PROP"
HERE="$(cd "$(dirname "${BASH_SOURCE[0]}")/.." && pwd)"
WT="/tmp/seedv/$ID"
mkdir -p /tmp/seedv; rm -rf "$WT"; git -C /repo worktree prune
git -C /repo worktree add --detach "$WT" HEAD >/dev/null 2>&1 || { echo "worktree failed"; exit 9; }
cleanup() { git -C /repo worktree remove --force "$WT" >/dev/null 2>&1; rm -rf "$WT"; }
trap cleanup EXIT
/venv/bin/python "$SRC/demo$K.py" "$WT" > /tmp/seedv/$ID.clean.log 2>&1; rc_clean=$?
( cd "$WT" && git apply "$SRC/patch$K.diff" ) || { echo "PATCH DOES NOT APPLY"; exit 8; }
suite=$(cd "$WT" && /venv/bin/python -m pytest -ra -q -p no:cacheprovider --timeout=900 --continue-on-collection-errors 2>&1 | tail -1); rm -f "$WT/logica.db"
/venv/bin/python "$SRC/demo$K.py" "$WT" > /tmp/seedv/$ID.patched.log 2>&1; rc_patched=$?
echo "seed $ID: demo clean rc=$rc_clean patched rc=$rc_patched suite: $suite"
DET="{}"
for P in $CHECKS; do
  s=$(date +%s)
  out=$(VERIF_REPLAY_DIR="/tmp/seedv/$ID.replay" VERIF_REPO="$WT" VERIF_NO_EVIDENCE=1 "$HERE/check" "$P" --tier "${TIER:-quick}" 2>&1); rc=$?
  t=$(( $(date +%s)-s ))
  first=$(echo "$out" | grep -m1 -E '^  what' | cut -c1-300)
  echo "  check $P rc=$rc t=${t}s $first"
  DET=$(echo "$DET" | jq --arg p "$P" --argjson rc $rc --argjson t $t --arg first "$first" --arg tier "${TIER:-quick}" '. + {($p): {rc: $rc, wall_s: $t, tier: $tier, first_violation: $first}}')
done
rm -rf "/tmp/seedv/$ID.replay"
if [ "$rc_clean" = 0 ] && [ "$rc_patched" != 0 ] && echo "$suite" | grep -q "40 passed"; then
  D="$HERE/seeded/$ID"; mkdir -p "$D"
  cp "$SRC/patch$K.diff" "$D/patch.diff"; cp "$SRC/demo$K.py" "$D/demo.py"; cp "$SRC/notes$K.md" "$D/notes.md" 2>/dev/null
  jq -n --arg prop "$PROP" --arg id "$ID" --arg needs "$NEEDS" --arg suite "$suite" --argjson rc_clean $rc_clean --argjson rc_patched $rc_patched \
     --arg base "$(git -C /repo rev-parse --short HEAD)" --argjson det "$DET" \
     '{property: $prop, id: $id, origin: "independent sub-agent given only the property text and a scratch worktree", needs_to_manifest: $needs,
       confirmed: {repo_base: $base, demo_cmd: "/venv/bin/python demo.py <checkout>", demo_clean_rc: $rc_clean, demo_patched_rc: $rc_patched, pinned_suite_with_patch: $suite},
       detection: $det}' > "$D/meta.json"
  echo "  stored $D"
else
  echo "  NOT CONFIRMED (not stored)"
fi
