#!/bin/bash
# usage: tools/seed_matrix.sh [seed-id ...]   -- re-runs, for every seeded change (default: all), the quick check of the
# property it breaks plus the cross-property checks listed below against a scratch copy of /repo with the patch applied,
# and rewrites the "detection" block of seeded/<id>/meta.json.  One line per (seed, check) goes to seeded/MATRIX.txt.
HERE="$(cd "$(dirname "${BASH_SOURCE[0]}")/.." && pwd)"
declare -A EXTRA=( [C05-2]="C16" [C06-2]="C15" [C07-1]="C04" [C07-2]="C20 C02" [C08-1]="C02" [C09-1]="C08 C17" [C09-2]="C01"
  [C11-1]="C01" [C11-2]="C01" [C12-2]="C06" [C15-1]="C06" [C15-2]="C06 C10" [C03-2]="C14" [C17-1]="C18" [C19-2]="C04" )
IDS="$@"; [ -z "$IDS" ] && IDS=$(cd "$HERE/seeded" && ls -d C??-? | sort)
OUT="$HERE/seeded/MATRIX.txt"
for ID in $IDS; do
  D="$HERE/seeded/$ID"; P=$(jq -r .property "$D/meta.json")
  DET="{}"
  for C in $P ${EXTRA[$ID]:-}; do
    s=$(date +%s)
    res=$(SHOW=1 "$HERE/mutants/run_mutant.sh" "$D/patch.diff" "$C" "${TIER:-quick}" 2>&1); rc=$?
    t=$(( $(date +%s)-s ))
    first=$(echo "$res" | grep -m1 -E '^  what' | cut -c1-260)
    verdict=$([ $rc = 1 ] && echo caught || ([ $rc = 0 ] && echo missed || echo "rc$rc"))
    echo "$ID $C $verdict t=${t}s $first" | tee -a "$OUT"
    DET=$(echo "$DET" | jq --arg p "$C" --argjson rc $rc --argjson t $t --arg first "$first" --arg tier "${TIER:-quick}" --arg v "$verdict" \
        '. + {($p): {verdict: $v, rc: $rc, wall_s: $t, tier: $tier, first_violation: $first}}')
  done
  tmp=$(mktemp); jq --argjson det "$DET" --arg base "$(git -C /repo rev-parse --short HEAD)" --arg vh "$(git -C $HERE rev-parse --short HEAD)" \
     '.detection = $det | .detection_at = {repo: $base, verif: $vh}' "$D/meta.json" > $tmp && mv $tmp "$D/meta.json"
done
