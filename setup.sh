#!/bin/bash
# MANIFEST.setup_cmd: offline install of the contract libraries beside the repository's interpreter.
HERE="$(cd "$(dirname "${BASH_SOURCE[0]}")" && pwd)"
cd "$HERE"
mkdir -p .deps .build evidence replay
if [ ! -d .deps/icontract ]; then
  PIP_NO_INDEX=1 /venv/bin/pip install --quiet --no-index --find-links /opt/veriftools/wheels \
    --target "$HERE/.deps" icontract deal >/dev/null 2>&1 || echo "setup: icontract/deal not installed (contracts fall back to plain wrappers)"
fi
/venv/bin/python -c "import sys; sys.path.insert(0,'$HERE/.deps'); import icontract; print('icontract', icontract.__version__)" || true
echo "setup done"
