"""C12 - imports isolate modules and mean the same as one flattened program."""
import os
import random
import shutil

from vf.checks import semantic
from vf.core import repo
from vf.core.shard import stable_hash
from vf.gen import ir, modules, printer, progen, transform
from vf.mon import pipeline
from vf.native import build
from vf.ref import compare, evaluator

ID = 'C12'
LEVEL = 'exploration'
RULE = ('generated single-file programs (unique predicate names) split into 2-5 files in dependency order: chains and diamonds of imports, '
        'module-private predicates given the same local name in several files, exported predicates sharing a name (importers then use '
        '`as`), files with the same base name in different directories, one or several import roots; the main-file predicates are run '
        'through parse.ParseFile(main, import_root) + the real pipeline on SQLite under both parsers (LOGICA_PARSER=PY and =CPP, shared object '
        'built from the current source) and compared with the reference evaluator on the flattened program and with the flattened text '
        'through the same pipeline; negative graphs (import cycles of length 1-3, import of an undefined predicate, unused import, main '
        'redefining an imported predicate) must be rejected with ParsingException by both parsers; one evaluation = one (tree, parser, '
        'predicate) or one negative tree; distinct = hash(files, predicate, parser); non-trivial = >= 2 files define a predicate of the same '
        'name, or a diamond, or shared base names')
ASSUMPTIONS = ['the flattened program is the generator\'s own single-file IR (unique names by construction)',
               'the C++ parser is the shared object built by vf/native/build.py from parser_cpp/logica_parse.cpp of the tree under test']
MIN_NONTRIVIAL = 30
REPORT_COUNTERS = ['trees', 'predicates', 'ok_PY', 'ok_CPP', 'flat_ok', 'mismatch', 'diamond_trees', 'shared_base_name_trees',
                   'same_private_name_trees', 'alias_imports', 'multi_root_trees', 'negative_trees', 'negative_rejected_PY', 'negative_rejected_CPP',
                   'rule_sets_equal_across_parsers']


def plan(tier, seed):
  flavour = 'asan' if tier == 'thorough' else 'prod'
  return {'nshards': 16, 'timeout_s': 5400 if tier == 'thorough' else 1200,
          'params': {'n_trees': 8 if tier == 'thorough' else 26, 'flavour': flavour}, 'env': build.shard_env(flavour)}


def prepare(tier, seed, out_dir):
  build.ensure('asan' if tier == 'thorough' else 'prod')
  return None


def set_parser(mode):
  os.environ['LOGICA_PARSER'] = mode


def run_tree(main_text, root, pred, mode):
  set_parser(mode)
  try:
    rules, bad = pipeline.parse_program(main_text, import_root=root)
  finally:
    set_parser('PY')
  if bad:
    return bad, None
  out = pipeline.run(main_text, pred, rules=rules)
  return out, rules


def canon_rules(rules):
  """Rule trees with heritage-aware strings reduced to text, for the cross-parser comparison."""
  import json

  def strip(x):
    if isinstance(x, dict):
      return {k: strip(v) for k, v in x.items()}
    if isinstance(x, list):
      return [strip(v) for v in x]
    if isinstance(x, str):
      return str(x)
    return x
  return sorted(json.dumps(strip(r), sort_keys=True, default=str) for r in rules)


def negative_tree(rng, scratch):
  """Writes an invalid import graph; returns (main_text, root, kind)."""
  kind = rng.choice(['cycle1', 'cycle2', 'cycle3', 'undefined', 'unused', 'redefine'])
  root = os.path.join(scratch, 'neg')
  if os.path.exists(root):
    shutil.rmtree(root)
  os.makedirs(os.path.join(root, 'pk'))

  def w(path, text):
    with open(os.path.join(root, *path.split('.')) + '.l', 'w') as f:
      f.write(text)
  if kind == 'cycle1':
    w('pk.a', 'import pk.a.P;\nQ(x) :- P(x);\nP(1);\n')
    main = '@Engine("sqlite");\nimport pk.a.Q;\nR(x) :- Q(x);\n'
  elif kind == 'cycle2':
    w('pk.a', 'import pk.b.Pb;\nPa(x) :- Pb(x);\nPa(0);\n')
    w('pk.b', 'import pk.a.Pa;\nPb(x) :- Pa(x);\n')
    main = '@Engine("sqlite");\nimport pk.a.Pa;\nR(x) :- Pa(x);\n'
  elif kind == 'cycle3':
    w('pk.a', 'import pk.b.Pb;\nPa(x) :- Pb(x);\nPa(0);\n')
    w('pk.b', 'import pk.c.Pc;\nPb(x) :- Pc(x);\n')
    w('pk.c', 'import pk.a.Pa;\nPc(x) :- Pa(x);\n')
    main = '@Engine("sqlite");\nimport pk.a.Pa;\nR(x) :- Pa(x);\n'
  elif kind == 'undefined':
    w('pk.a', 'Pa(1);\n')
    main = '@Engine("sqlite");\nimport pk.a.Nope;\nR(x) :- Nope(x);\n'
  elif kind == 'unused':
    w('pk.a', 'Pa(1);\nPz(2);\n')
    main = '@Engine("sqlite");\nimport pk.a.Pa;\nimport pk.a.Pz;\nR(x) :- Pa(x);\n'
  else:
    w('pk.a', 'Pa(1);\n')
    main = '@Engine("sqlite");\nimport pk.a.Pa;\nPa(5);\nR(x) :- Pa(x);\n'
  return main, root, kind


def run_shard(ctx):
  pipeline.mods()
  pipeline.enable_library_memo()
  lib_path = build.ensure(ctx.params['flavour'])
  build.install(lib_path)
  ctx.count('cpp_library_matches_source', 1 if build.source_hash() in lib_path else 0)
  scratch = repo.scratch_dir('c12')
  try:
    for i in range(ctx.params['n_trees']):
      run_case(ctx, ctx.rng.randrange(1 << 48), i, scratch)
  finally:
    shutil.rmtree(scratch, ignore_errors=True)


def run_case(ctx, case_seed, i, scratch):
  rng = random.Random(case_seed)
  info = {'case_seed': case_seed, 'i': i}
  if i % 6 == 5:
    main, root, kind = negative_tree(rng, scratch)
    ctx.journal(dict(info, negative=kind, main=main))
    ctx.count('negative_trees')
    ctx.count('negative_' + kind)
    for mode in ('PY', 'CPP'):
      set_parser(mode)
      try:
        rules, bad = pipeline.parse_program(main, import_root=root)
      finally:
        set_parser('PY')
      ok = bad is not None and bad.kind == 'diagnostic' and 'ParsingException' in (bad.exc_type or '')
      ctx.case(stable_hash([main, kind, mode]), ok)
      if ok:
        ctx.count('negative_rejected_' + mode)
      else:
        ctx.violation(None, 'invalid import graph (%s) is not rejected with ParsingException by the %s parser: %s' % (
            kind, mode, 'accepted' if bad is None else '%s %s' % (bad.exc_type, (bad.message or '')[:200])),
            dict(info, kind='negative', graph=kind, main=main, parser=mode, observed=(bad.brief() if bad else 'accepted')))
    return
  feats = {'n_der': (4, 7), 'agg': 0.2, 'combine': 0.2, 'neg': 0.2} if i % 2 else {'n_der': (4, 7)}
  prog = None
  if i % 3 == 1:
    # modules that contain functor applications (made predicates must be prefixed like defined ones)
    from vf.checks import c04
    built = c04.build(rng)
    if built:
      prog = built[0]
      ctx.count('trees_with_functor_applications')
  if prog is None:
    prog = progen.generate(rng, feats)
  sp = modules.split(prog, rng)
  multi_root = rng.random() < 0.35
  base = os.path.join(scratch, 't%d' % (i % 4))
  if os.path.exists(base):
    shutil.rmtree(base)
  roots = [os.path.join(base, 'r1'), os.path.join(base, 'r2')] if multi_root else os.path.join(base, 'r1')
  for r in ([roots] if isinstance(roots, str) else roots):
    os.makedirs(r)
  modules.write_tree(roots, sp['files'], rng)
  flat_text, _ = printer.program_text(prog)
  case = dict(info, files=sp['files'], main=sp['main_text'], roots=('2 roots' if multi_root else '1 root'))
  ctx.journal(case)
  ctx.count('trees')
  inf = sp['info']
  if inf['diamond']:
    ctx.count('diamond_trees')
  if inf['shared_base_names']:
    ctx.count('shared_base_name_trees')
  if inf['same_private_names']:
    ctx.count('same_private_name_trees')
  if multi_root:
    ctx.count('multi_root_trees')
  ctx.count('alias_imports', inf['aliases'])
  nontrivial_tree = inf['diamond'] or inf['shared_base_names'] or inf['same_private_names']
  baseline = semantic.baseline_switches()
  ev = evaluator.Evaluator(prog, switches=dict(baseline))
  flat_rules, flat_bad = pipeline.parse_program(flat_text)
  preds = [p for p in sp['main_preds'] if prog['preds'][p]['kind'] != 'inj']
  parsed = {}
  for mode in ('PY', 'CPP'):
    for pred in preds:
      out, rules = run_tree(sp['main_text'], roots, pred, mode)
      parsed[mode] = rules
      ctx.count('predicates')
      try:
        res = semantic.check_predicate(prog, sp['main_text'], None, pred, ev, run=lambda *a, **k: out)
      except evaluator.Unsupported:
        continue
      ctx.case(stable_hash([sp['files'], sp['main_text'], pred, mode]), res.status == 'ok' and nontrivial_tree)
      if res.status == 'ok':
        ctx.count('ok_' + mode)
        if nontrivial_tree and ctx.rng.random() < 0.01:
          ctx.sample({'files': sp['files'], 'main': sp['main_text'], 'predicate': pred, 'parser': mode, 'rows': out.rows[:6]})
        continue
      if res.status == 'discarded':
        continue
      # is the single-file program fine? then the import machinery is at fault
      flat = None if flat_bad else pipeline.run(flat_text, pred, rules=flat_rules)
      key = None
      if flat is not None and flat.kind == out.kind and flat.kind != 'rows':
        ctx.count('same_failure_in_flattened_program')
        continue          # not this property's subject (C01/C02 findings)
      if res.status == 'mismatch' and flat is not None and flat.kind == 'rows' and sorted(map(repr, flat.rows)) == sorted(map(repr, out.rows)):
        ctx.count('same_failure_in_flattened_program')
        continue
      ctx.count('mismatch')
      ctx.violation(key, 'multi-file program differs from the flattened one for %s under the %s parser: %s' % (pred, mode, (res.detail or '')[:300]),
                    dict(case, kind='positive', predicate=pred, parser=mode, observed=out.brief(), flat=flat_text,
                         expected=compare.show_table(res.expected)[:30] if res.expected is not None else None))
  if parsed.get('PY') is not None and parsed.get('CPP') is not None:
    if canon_rules(parsed['PY']) == canon_rules(parsed['CPP']):
      ctx.count('rule_sets_equal_across_parsers')
    else:
      ctx.violation(None, 'the two parsers build different rule sets for the same import tree',
                    dict(case, kind='positive', n_py=len(parsed['PY']), n_cpp=len(parsed['CPP'])))
  if not flat_bad:
    for pred in preds[-1:]:
      try:
        res = semantic.check_predicate(prog, flat_text, flat_rules, pred, ev)
        if res.status == 'ok':
          ctx.count('flat_ok')
      except evaluator.Unsupported:
        pass
  # invalid graphs derived from this valid tree: one mutation, in the main file or in any module
  if parsed.get('PY') is not None and parsed.get('CPP') is not None:
    for _ in range(2):
      mut = mutate_to_invalid(sp, rng)
      if mut is None:
        ctx.count('negative_mutation_not_applicable')
        continue
      kind, where, files2, main2 = mut
      nbase = os.path.join(scratch, 'n%d' % (i % 4))
      if os.path.exists(nbase):
        shutil.rmtree(nbase)
      os.makedirs(nbase)
      modules.write_tree(nbase, files2)
      ctx.journal(dict(info, negative=kind, where=where, files=files2, main=main2))
      ctx.count('negative_mutations')
      ctx.count('negative_mutation_' + kind)
      ctx.count('negative_mutation_in_' + ('main' if where == 'main' else 'module'))
      for mode in ('PY', 'CPP'):
        set_parser(mode)
        try:
          rules, bad = pipeline.parse_program(main2, import_root=nbase)
        finally:
          set_parser('PY')
        ok = bad is not None and bad.kind == 'diagnostic' and 'ParsingException' in (bad.exc_type or '')
        ctx.case(stable_hash([files2, main2, kind, mode]), ok)
        if ok:
          ctx.count('negative_mutation_rejected_' + mode)
        else:
          ctx.violation(None, 'invalid import graph (%s in %s) is not rejected with ParsingException by the %s parser: %s' % (
              kind, where, mode, 'accepted' if bad is None else '%s %s' % (bad.exc_type, (bad.message or '')[:200])),
              dict(info, kind='negative_mutation', graph=kind, where=where, files=files2, main=main2, parser=mode,
                   observed=(bad.brief() if bad else 'accepted')))


IMPORT_RE = None


def mutate_to_invalid(sp, rng):
  """One mutation of a valid tree that the property says must be rejected. Returns (kind, where, files, main) or None."""
  import re
  files = dict(sp['files'])
  main = sp['main_text']
  texts = dict(files, main=main)
  imp = re.compile(r'^import ([A-Za-z_.0-9]+)\.([A-Za-z_0-9]+)(?: as ([A-Za-z_0-9]+))?;$', re.M)
  imports = {w: imp.findall(t) for w, t in texts.items()}
  # modules in dependency order (mod_path index), restricted to the files the main file really reaches
  live = {'main'}
  todo = ['main']
  while todo:
    w = todo.pop()
    for pth, _, _ in imports.get(w, ()):
      if pth not in live and pth in texts:
        live.add(pth)
        todo.append(pth)
  texts_live = {w: t for w, t in texts.items() if w in live}
  imports = {w: v for w, v in imports.items() if w in live}
  order = [sp['mod_path'][k] for k in sorted(sp['mod_path']) if sp['mod_path'][k] in live]
  kind = rng.choice(['redefine', 'redefine', 'unused', 'undefined', 'cycle'])
  where = None
  if kind == 'redefine':
    cands = sorted(w for w in texts_live if imports[w])
    if not cands:
      return None
    where = rng.choice(cands)
    path, name, alias = rng.choice(imports[where])
    texts[where] = texts[where] + '%s(1);\n' % (alias or name)
  elif kind == 'unused':
    # import one more (existing, exported or not) predicate of an earlier module and never use it
    cands = []
    for wi, w in enumerate(order):
      for earlier in order[:wi]:
        for p, local in sp['info']['modules'].get(earlier, {}).get('preds', {}).items():
          cands.append((w, earlier, local))
    if not cands:
      return None
    where, earlier, local = rng.choice(cands)
    texts[where] = 'import %s.%s as Unused9;\n' % (earlier, local) + texts[where]
  elif kind == 'undefined':
    cands = [(w, e) for wi, w in enumerate(order) for e in order[:wi]]
    if not cands:
      return None
    where, earlier = rng.choice(cands)
    texts[where] = 'import %s.Nope9;\n' % earlier + texts[where] + 'Zq9() :- Nope9();\n'
  else:
    # an earlier module imports from a later module that (transitively) imports it
    deps = {w: {pth for pth, _, _ in imports[w]} for w in texts_live}
    def reach(a, seen):
      for b in deps.get(a, ()):
        if b not in seen:
          seen.add(b)
          reach(b, seen)
      return seen
    cands = []
    for later in order:
      if later == 'main':
        continue
      for earlier in reach(later, set()):
        preds = list(sp['info']['modules'].get(later, {}).get('preds', {}).values())
        if preds and earlier in texts_live and later in live:
          cands.append((earlier, later, rng.choice(preds)))
    if not cands:
      return None
    where, later, local = rng.choice(cands)
    texts[where] = 'import %s.%s as Cyc9;\n' % (later, local) + texts[where] + 'Zq9() :- Cyc9();\n'
  main2 = texts.pop('main')
  return kind, where, texts, main2


def finalize(agg, tier):
  out = []
  c = agg['counters']
  for k in ('trees', 'predicates', 'trees_with_functor_applications', 'ok_PY', 'ok_CPP', 'flat_ok', 'diamond_trees', 'shared_base_name_trees', 'same_private_name_trees',
            'alias_imports', 'multi_root_trees', 'negative_trees', 'negative_rejected_PY', 'negative_rejected_CPP', 'negative_mutations',
            'negative_mutation_rejected_PY', 'negative_mutation_rejected_CPP', 'negative_mutation_in_module', 'negative_mutation_redefine',
            'negative_mutation_cycle', 'negative_mutation_unused', 'negative_mutation_undefined',
            'rule_sets_equal_across_parsers', 'cpp_library_matches_source'):
    if not c.get(k):
      out.append('mandatory counter %s is zero' % k)
  return out


def replay(w):
  c = semantic.Collector()
  pipeline.mods()
  build.install(build.ensure('prod'))
  scratch = repo.scratch_dir('c12r')
  try:
    run_case(c, w['case_seed'], w['i'], scratch)
  finally:
    shutil.rmtree(scratch, ignore_errors=True)
  return c.report()
