"""C20 - built-in functions and aggregates on SQLite compute their documented meaning."""
import itertools
import json
import random

from vf.checks import semantic
from vf.core.shard import stable_hash
from vf.mon import hooks, pipeline
from vf.ref import aggregates, builtins, compare

ID = 'C20'
LEVEL = 'exploration'
RULE = ('scalar built-ins over exhaustive small domains, 50 calls per compiled one-predicate program: Range(-1..6); Size / Sort / Element / l[i] '
        'over all lists of length <= 4 (5 in thorough) over 3 values with every index 0..len; ArrayConcat over all pairs of lists of length <= 2; '
        '++ / Join / Split / ToString / ToInt64 over small string domains; Least / Greatest with 2-4 arguments; + - * / % and the six comparisons '
        'over all pairs of ints in -3..3 (zero divisors included) and of strings; `in` as proposition and as expression; aggregates Sum Min Max '
        'Avg Count List Set ArgMin ArgMax ArgMinK ArgMaxK Array as predicate-level aggregation and as aggregating expression, compiled once and '
        'executed on a data table filled with every multiset of <= 4 (5) rows over 2 keys x 3 values in all insertion orders; one evaluation = one '
        '(built-in, arguments) or (aggregate, form, multiset, order); distinct = that tuple; non-trivial = an edge argument (empty list, 0, index = '
        'len, K >= n, duplicates, ties) - counted per built-in in coverage.tables')
ASSUMPTIONS = ['integer / is SQLite integer division (truncation toward zero) and % the C remainder; both give null on a zero divisor',
               'the reference models the deviations recorded as open C02 findings (Count / List over nothing)',
               'negative indices and an empty Split separator are outside the defined domain']
MIN_NONTRIVIAL = 300
REPORT_COUNTERS = ['scalar_evaluations', 'scalar_ok', 'aggregate_evaluations', 'aggregate_ok', 'orders_compared', 'order_invariant_groups',
                   'ArgMin.step', 'ArgMax.step', 'DistinctListAgg.step', 'programs_compiled']


def EXHAUSTIVE(tier):
  return True


def plan(tier, seed):
  return {'nshards': 16, 'timeout_s': 5400 if tier == 'thorough' else 1200, 'params': {'max_len': 5 if tier == 'thorough' else 4,
                                                                                          'max_rows': 5 if tier == 'thorough' else 4}}


# -- rendering values as Logica text --------------------------------------------------------------

def lit(v):
  if v is None:
    return 'null'
  if isinstance(v, bool):
    return 'true' if v else 'false'
  if isinstance(v, int):
    return str(v) if v >= 0 else '(%d)' % v
  if isinstance(v, str):
    return '"%s"' % v
  if isinstance(v, tuple) and v[0] == 'L':
    return '[%s]' % ', '.join(lit(x) for x in v[1])
  raise ValueError(v)


def L(items):
  return ('L', tuple(items))


def scalar_cases(max_len):
  """Yields (builtin, text, expected, edge)."""
  vals = [1, 2, 3]
  lists = [L(c) for n in range(max_len + 1) for c in itertools.product(vals, repeat=n)]
  for n in range(-1, 7):
    yield 'Range', 'Range(%s)' % lit(n), builtins.call('Range', [n]), n <= 0
  for l in lists:
    yield 'Size', 'Size(%s)' % lit(l), len(l[1]), len(l[1]) == 0
    yield 'Sort', 'Sort(%s)' % lit(L(reversed(l[1]))), L(sorted(l[1])), len(l[1]) <= 1 or len(set(l[1])) < len(l[1])
    for i in range(len(l[1]) + 1):
      yield 'Element', 'Element(%s, %d)' % (lit(l), i), builtins.call('Element', [l, i]), i == len(l[1])
  short = [l for l in lists if len(l[1]) <= 2]
  for a in short:
    for b in short:
      yield 'ArrayConcat', 'ArrayConcat(%s, %s)' % (lit(a), lit(b)), L(a[1] + b[1]), not a[1] or not b[1]
  strs = ['', 'a', 'b c', 'Zz', 'é']
  for a in strs:
    for b in strs:
      yield '++', '%s ++ %s' % (lit(a), lit(b)), a + b, a == '' or b == ''
  for l in [L([]), L([1]), L([1, 2]), L([3, 1, 2]), L(['x']), L(['x', 'y']), L(['', 'q', ''])]:
    for sep in ['', ',', ' - ']:
      yield 'Join', 'Join(%s, %s)' % (lit(l), lit(sep)), sep.join(str(x) for x in l[1]), not l[1] or sep == ''
  for s in ['', 'a', 'a,b', ',a,', 'a,,b', 'abc']:
    for sep in [',', 'a', 'bc']:
      yield 'Split', 'Split(%s, %s)' % (lit(s), lit(sep)), L(s.split(sep)), s == '' or sep not in s
  for n in [-3, -1, 0, 1, 7, 12, 100]:
    yield 'ToString', 'ToString(%s)' % lit(n), str(n), n <= 0
  for s in ['0', '12', '-3', '007']:
    yield 'ToInt64', 'ToInt64(%s)' % lit(s), int(s), s in ('0', '007')
  ints = list(range(-3, 4))
  for name in ('Least', 'Greatest'):
    f = min if name == 'Least' else max
    for a in ints:
      for b in ints:
        yield name, '%s(%s, %s)' % (name, lit(a), lit(b)), f(a, b), a == b
    for args in itertools.product([-2, 0, 3], repeat=3):
      yield name, '%s(%s)' % (name, ', '.join(lit(x) for x in args)), f(args), len(set(args)) < 3
    for args in [(1, 2, 3, 4), (4, 3, 2, 1), (0, 0, 0, 0), (-1, 5, -1, 2)]:
      yield name, '%s(%s)' % (name, ', '.join(lit(x) for x in args)), f(args), True
  for a in ints:
    for b in ints:
      yield '+', '%s + %s' % (lit(a), lit(b)), a + b, a == 0 or b == 0
      yield '-', '%s - %s' % (lit(a), lit(b)), a - b, a == 0 or b == 0
      yield '*', '%s * %s' % (lit(a), lit(b)), a * b, a == 0 or b == 0
      yield '/', '%s / %s' % (lit(a), lit(b)), builtins.call('Div', [a, b]), b == 0 or a == 0
      yield '%', '%s %% %s' % (lit(a), lit(b)), builtins.call('Mod', [a, b]), b == 0 or a == 0
      for op, fn in (('==', lambda x, y: x == y), ('!=', lambda x, y: x != y), ('<', lambda x, y: x < y), ('<=', lambda x, y: x <= y),
                     ('>', lambda x, y: x > y), ('>=', lambda x, y: x >= y)):
        yield op, '(%s %s %s)' % (lit(a), op, lit(b)), 1 if fn(a, b) else 0, a == b
  for a in ['', 'a', 'ab', 'b', 'B']:
    for b in ['', 'a', 'ab', 'b', 'B']:
      for op, fn in (('==', lambda x, y: x == y), ('<', lambda x, y: x < y), ('>=', lambda x, y: x >= y)):
        yield 'str' + op, '(%s %s %s)' % (lit(a), op, lit(b)), 1 if fn(a, b) else 0, a == b or a == '' or b == ''
  for x in range(-1, 4):
    for l in [l for l in lists if len(l[1]) <= 3]:
      yield 'in_expr', '(%s in %s)' % (lit(x), lit(l)), 1 if x in l[1] else 0, not l[1]


# -- aggregates ----------------------------------------------------------------------------------

AGG_PROGRAM = '''@Engine("sqlite");
ArgMin2(x) = ArgMinK(x, 2);
ArgMax2(x) = ArgMaxK(x, 2);
ArgMin5(x) = ArgMinK(x, 5);
ArgMax1(x) = ArgMaxK(x, 1);
PSum(k, r? += v) distinct :- data(k:, v:);
PMin(k, r? Min= v) distinct :- data(k:, v:);
PMax(k, r? Max= v) distinct :- data(k:, v:);
PAvg(k, r? Avg= v) distinct :- data(k:, v:);
PCount(k, r? Count= v) distinct :- data(k:, v:);
PList(k, r? List= v) distinct :- data(k:, v:);
PSet(k, r? Set= v) distinct :- data(k:, v:);
PArgMin(k, r? ArgMin= a -> v) distinct :- data(k:, v:, a:);
PArgMax(k, r? ArgMax= a -> v) distinct :- data(k:, v:, a:);
PArgMin2(k, r? ArgMin2= a -> v) distinct :- data(k:, v:, a:);
PArgMax2(k, r? ArgMax2= a -> v) distinct :- data(k:, v:, a:);
PArgMin5(k, r? ArgMin5= a -> v) distinct :- data(k:, v:, a:);
PArgMax1(k, r? ArgMax1= a -> v) distinct :- data(k:, v:, a:);
PArray(k, r? Array= v -> a) distinct :- data(k:, v:, a:);
ESum(k, r) :- keys(k:), r == Sum{v :- data(k:, v:)};
EMin(k, r) :- keys(k:), r == Min{v :- data(k:, v:)};
EMax(k, r) :- keys(k:), r == Max{v :- data(k:, v:)};
ECount(k, r) :- keys(k:), r == Count{v :- data(k:, v:)};
EList(k, r) :- keys(k:), r == List{v :- data(k:, v:)};
ESet(k, r) :- keys(k:), r == Set{v :- data(k:, v:)};
EArgMin(k, r) :- keys(k:), r == ArgMin{a -> v :- data(k:, v:, a:)};
EArgMax(k, r) :- keys(k:), r == ArgMax{a -> v :- data(k:, v:, a:)};
EArgMin2(k, r) :- keys(k:), r == ArgMin2{a -> v :- data(k:, v:, a:)};
'''
AGG_PREDS = ['PSum', 'PMin', 'PMax', 'PAvg', 'PCount', 'PList', 'PSet', 'PArgMin', 'PArgMax', 'PArgMin2', 'PArgMax2', 'PArgMin5', 'PArgMax1', 'PArray',
             'ESum', 'EMin', 'EMax', 'ECount', 'EList', 'ESet', 'EArgMin', 'EArgMax', 'EArgMin2']


def expected_agg(pred, rows, switches):
  """rows of one key in arrival order: [(v, a)]. Returns a predicate checking an observed value, and a description."""
  name = pred[1:]
  vs = [v for v, _ in rows]
  if name in ('Sum', 'Min', 'Max', 'Count', 'List', 'Set'):
    op = {'Sum': '+=', 'Min': 'Min=', 'Max': 'Max=', 'Count': 'Count=', 'List': 'List=', 'Set': 'Set='}[name]
    agg = aggregates.aggregate(op, vs, switches)
    if name == 'Set' and agg.kind == 'set':
      want = L(sorted(agg.data))       # element order of a Set must not depend on arrival: the sorted list
      return (lambda o: o == want), compare.show_value(want)
    return (lambda o: compare.value_matches(agg, o)), repr(agg)
  if name == 'Avg':
    if not vs:
      return (lambda o: o is None), 'null'
    want = sum(vs) / len(vs)
    return (lambda o: isinstance(o, (int, float)) and abs(o - want) < 1e-9), repr(want)
  pairs = [(a, v) for v, a in rows]
  if name in ('ArgMin', 'ArgMax'):
    agg = aggregates.aggregate(name + '=', [('R', (('arg', a), ('value', v))) for a, v in pairs], switches)
    return (lambda o: compare.value_matches(agg, o)), repr(agg)
  if name in ('ArgMin2', 'ArgMax2', 'ArgMin5', 'ArgMax1'):
    k = int(name[-1])
    desc = name.startswith('ArgMax')
    if not pairs:
      return (lambda o: o is None or o == L([])), 'null'
    order = sorted((v for _, v in pairs), reverse=desc)[:k]

    def ok(o):
      if not (isinstance(o, tuple) and o and o[0] == 'L') or len(o[1]) != len(order):
        return False
      avail = list(pairs)
      got_vals = []
      for a in o[1]:
        m = [p for p in avail if p[0] == a]
        if not m:
          return False
        avail.remove(m[0])
        got_vals.append(m[0][1])
      return got_vals == order
    return ok, 'the %d args with %s values %s in that order' % (len(order), 'largest' if desc else 'smallest', order)
  if name == 'Array':
    # Array= v -> a : the values a ordered by key v (ties in any order)
    if not pairs:
      return (lambda o: o is None or o == L([])), 'null'

    def ok(o):
      if not (isinstance(o, tuple) and o and o[0] == 'L') or len(o[1]) != len(pairs):
        return False
      avail = list(pairs)
      keys = []
      for a in o[1]:
        m = [p for p in avail if p[0] == a]
        if not m:
          return False
        avail.remove(m[0])
        keys.append(m[0][1])
      return keys == sorted(keys)
    return ok, 'all args ordered by value'
  raise ValueError(pred)


def run_shard(ctx):
  m = pipeline.mods()
  pipeline.enable_library_memo()
  counters = hooks.install_counters(['UDF'])
  from vf.mon import udf_contracts
  udf_state = udf_contracts.install()
  scalars(ctx)
  aggregates_part(ctx, m)
  for k, v in counters.items():
    ctx.count(k, v)
  ctx.count('udf_contract_evaluations', udf_state['evaluations'])
  ctx.count('udf_contracts_via_icontract', 1 if udf_state['icontract'] else 0)


def scalars(ctx):
  cases = list(scalar_cases(ctx.params['max_len']))
  mine = [c for i, c in enumerate(cases) if i % ctx.nshards == ctx.shard]
  for start in range(0, len(mine), 50):
    batch = mine[start:start + 50]
    text = '@Engine("sqlite");\n' + ''.join('T(%d, %s);\n' % (i, c[1]) for i, c in enumerate(batch))
    ctx.journal({'kind': 'scalar', 'program': text})
    out = pipeline.run(text, 'T')
    ctx.count('programs_compiled')
    if out.kind != 'rows':
      # find the culprit by running the calls one by one
      for i, c in enumerate(batch):
        o1 = pipeline.run('@Engine("sqlite");\nT(0, %s);\n' % c[1], 'T')
        judge_scalar(ctx, c, o1.rows[0][1] if o1.kind == 'rows' and o1.rows else None, o1 if o1.kind != 'rows' else None)
      continue
    got = {r[0]: r[1] for r in out.rows}
    for i, c in enumerate(batch):
      judge_scalar(ctx, c, got.get(i), None)
  # `in` as a proposition and l[i] through variables
  if ctx.shard == 0:
    text = ('@Engine("sqlite");\nLst(1, [5, 6, 7]);\nLst(2, []);\nLst(3, [9]);\nS0(i, l[0]) :- Lst(i, l);\nS1(i, l[1]) :- Lst(i, l);\n'
            'S3(i, l[3]) :- Lst(i, l);\nIn(i, x) :- Lst(i, l), x in l;\nHas(i) :- Lst(i, l), 6 in l;\n')
    exp = {'S0': {(1, 5), (2, None), (3, 9)}, 'S1': {(1, 6), (2, None), (3, None)}, 'S3': {(1, None), (2, None), (3, None)},
           'In': {(1, 5), (1, 6), (1, 7), (3, 9)}, 'Has': {(1,)}}
    for p, want in exp.items():
      o = pipeline.run(text, p)
      ctx.count('scalar_evaluations')
      ok = o.kind == 'rows' and {tuple(r) for r in o.rows} == want
      ctx.case(stable_hash(['sub', p]), ok)
      if ok:
        ctx.count('scalar_ok')
      else:
        ctx.violation(None, 'subscript / in through variables: %s gives %s, expected %s' % (p, o.rows if o.kind == 'rows' else o.brief(), sorted(want, key=repr)),
                      {'kind': 'scalar', 'program': text, 'predicate': p})


def judge_scalar(ctx, c, observed, failure):
  name, text, expected, edge = c
  ctx.count('scalar_evaluations')
  ctx.table('builtins', name, 'evaluations')
  if edge:
    ctx.table('builtins', name, 'edge_arguments')
  if failure is not None:
    ok = False
    got = '%s %s: %s' % (failure.kind, failure.exc_type, (failure.message or '')[:150])
  else:
    obs = compare.decode_observed(observed, ('list', 'int') if isinstance(expected, tuple) else None)
    if isinstance(observed, float) and isinstance(expected, int) and observed == expected:
      obs = expected
    ok = obs == compare.norm_value(expected)
    got = repr(observed)
  ctx.case(stable_hash(['scalar', text]), ok and edge)
  if ok:
    ctx.count('scalar_ok')
    if edge and ctx.rng.random() < 0.003:
      ctx.sample({'call': text, 'value': observed})
    return
  ctx.violation(classify_scalar(name, text, expected, observed), '%s returns %s, its definition prescribes %s' % (text, got, compare.show_value(expected)),
                {'kind': 'scalar', 'builtin': name, 'call': text, 'expected': compare.show_value(expected), 'observed': got})


def classify_scalar(name, text, expected, observed):
  return None


def aggregates_part(ctx, m):
  rules, bad = pipeline.parse_program(AGG_PROGRAM)
  if bad:
    ctx.violation(None, 'aggregate program rejected: %s' % (bad.message or '')[:300], {'kind': 'aggregate_program', 'program': AGG_PROGRAM})
    return
  compiled = {}
  for p in AGG_PREDS:
    prog, st, formatted, bad = pipeline.compile_predicate(rules, p)
    ctx.count('programs_compiled')
    if bad:
      ctx.violation(None, 'aggregate predicate %s does not compile: %s %s' % (p, bad.exc_type, (bad.message or '')[:300]),
                    {'kind': 'aggregate_program', 'predicate': p, 'program': AGG_PROGRAM})
      continue
    compiled[p] = st
  switches = semantic.baseline_switches()
  row_types = [(k, v) for k in (1, 2) for v in (1, 2, 3)]
  multisets = [ms for n in range(ctx.params['max_rows'] + 1) for ms in itertools.combinations_with_replacement(row_types, n)]
  mine = [ms for i, ms in enumerate(multisets) if i % ctx.nshards == ctx.shard]
  sl = m['sqlite3_logica']
  for ms in mine:
    rows = [(k, v, 'r%d' % i) for i, (k, v) in enumerate(ms)]
    perms = list(itertools.permutations(rows))
    if len(perms) > 24:
      perms = perms[:24]
    results = {}
    for perm in perms:
      con = sl.SqliteConnect()
      con.execute('create table data (k, v, a)')
      con.execute('create table keys (k)')
      con.executemany('insert into keys values (?)', [(1,), (2,), (3,)])
      con.executemany('insert into data values (?, ?, ?)', perm)
      for p, st in compiled.items():
        out = pipeline.execute_sqlite(st, connection=con)
        ctx.count('aggregate_evaluations')
        if out.kind != 'rows':
          ctx.violation(None, 'aggregate %s fails on rows %s: %s %s' % (p, list(perm), out.exc_type, (out.message or '')[:200]),
                        {'kind': 'aggregate', 'predicate': p, 'rows': [list(r) for r in perm]})
          continue
        by_key = {}
        for r in out.rows:
          by_key[r[0]] = compare.decode_observed(r[1], None)
        keys = [1, 2, 3] if p.startswith('E') else sorted({k for k, _, _ in perm})
        ok_all = True
        for k in keys:
          grp = [(v, a) for kk, v, a in perm if kk == k]
          check, desc = expected_agg(p, grp, switches)
          if k not in by_key and p.startswith('P'):
            ok = False
            obs = 'no row'
          else:
            obs = by_key.get(k)
            ok = check(obs)
          if not ok:
            ok_all = False
            ctx.violation(None, 'aggregate %s over rows %s (arrival order) gives %s for key %s, expected %s' % (p[1:], grp, compare.show_value(obs) if obs != 'no row' else obs, k, desc),
                          {'kind': 'aggregate', 'predicate': p, 'rows': [list(r) for r in perm], 'key': k})
          results.setdefault((p, k), []).append(obs)
        if ok_all:
          ctx.count('aggregate_ok')
        ties = len({v for _, v, _ in perm}) < len(perm)
        ctx.case(stable_hash(['agg', p, list(map(list, perm))]), ok_all and (ties or not perm or len(perm) >= 2))
        from vf.mon import udf_contracts
        for what, det in udf_contracts.drain()[:2]:
          ctx.violation(None, 'ArgMin/ArgMax UDF invariant broken while evaluating %s over rows %s: %s %s' % (p[1:], list(perm), what, det),
                        {'kind': 'aggregate', 'predicate': p, 'rows': [list(r) for r in perm], 'invariant': what})
      con.close()
    # order independence: every order gives the identical value (List: same multiset; Arg*: admissible sets already checked)
    for (p, k), vals in results.items():
      ctx.count('orders_compared', len(vals))
      name = p[1:]
      if name == 'List':
        norm = {repr(sorted(v[1], key=repr)) if isinstance(v, tuple) else repr(v) for v in vals}
      elif name.startswith('Arg') or name == 'Array':
        continue
      else:
        norm = {repr(v) for v in vals}
      if len(norm) == 1:
        ctx.count('order_invariant_groups')
      else:
        ctx.violation(None, 'aggregate %s depends on the order of its input rows: %s over the multiset %s' % (name, sorted(norm)[:4], list(ms)),
                      {'kind': 'aggregate_order', 'predicate': p, 'multiset': [list(r) for r in ms], 'key': k})
    if ctx.rng.random() < 0.02 and ms:
      ctx.sample({'rows': [list(r) for r in rows], 'orders': len(perms), 'aggregates': len(compiled)})


def finalize(agg, tier):
  out = []
  c = agg['counters']
  if not c.get('udf_contract_evaluations'):
    out.append('the UDF invariants were never evaluated')
  for k in ('scalar_evaluations', 'scalar_ok', 'aggregate_evaluations', 'aggregate_ok', 'orders_compared', 'order_invariant_groups', 'ArgMin.step',
            'ArgMax.step', 'DistinctListAgg.step'):
    if not c.get(k):
      out.append('mandatory counter %s is zero' % k)
  return out


def replay(w):
  pipeline.mods()
  if w.get('kind') == 'scalar' and w.get('call'):
    o = pipeline.run('@Engine("sqlite");\nT(0, %s);\n' % w['call'], 'T')
    got = o.rows[0][1] if o.kind == 'rows' and o.rows else o.brief()
    bad = repr(got) != w.get('observed') and False
    return str(got) != w.get('expected') and compare.show_value(compare.decode_observed(got, None)) != w.get('expected'), '%s -> %r (expected %s)' % (w['call'], got, w.get('expected'))
  return True, 'replay of aggregate witnesses: run ./check C20 (the case enumeration is deterministic)'
