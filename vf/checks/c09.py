"""C09 - every dialect compiles the core language into well-scoped SQL."""
import random

from vf.checks import semantic
from vf.core.shard import stable_hash
from vf.gen import printer, progen
from vf.mon import pipeline, scoper, sqllex

ID = 'C09'
LEVEL = 'exploration'
RULE = ('typed generated programs (records and field access, lists and `in`, ++, if-then-else, combines, negation, distinct with aggregated '
        'columns, functional and injectible predicates, WITH nesting) compiled for each of the 8 engines and several predicates; outcome must be '
        'SQL or one of the four diagnostics (never an internal error); every emitted statement (preamble, exports, main) is lexed with the '
        'engine\'s rules and checked: strings closed, brackets balanced, every alias.column bound by an enclosing FROM, allocated WITH tables '
        'defined before use, no placeholder leaked (%s, {0}, {left}, # disambiguated, UNDEFINED_, __rule_text, ValueOfUnnested(, Container(, '
        'Aggr(, MagicalEntangle( outside SQLite); calibration: every SQLite statement the checker accepts / rejects is cross-checked against the '
        'real engine; one evaluation = one (program, engine, predicate); distinct = that triple; non-trivial = SQL with >= 2 FROM aliases and a '
        'nested SELECT')
ASSUMPTIONS = ['lexical and scoping rules of the seven non-executable engines as implemented in vf/mon/sqllex.py and scoper.py',
               'semantic agreement on those engines is not claimed, only text-level well-formedness']
MIN_NONTRIVIAL = 200
ENGINES = ['sqlite', 'duckdb', 'psql', 'bigquery', 'trino', 'presto', 'clickhouse', 'databricks']
REPORT_COUNTERS = ['programs', 'compilations', 'sql_ok', 'diagnostics', 'internal_errors', 'statements_checked', 'sqlite_calibration_agree',
                   'sqlite_calibration_disagree'] + ['sql_' + e for e in ENGINES]


def plan(tier, seed):
  return {'nshards': 16, 'timeout_s': 5400 if tier == 'thorough' else 1200,
          'params': {'n_programs': 70 if tier == 'thorough' else 10}}


def features_for(i):
  k = i % 4
  if k == 0:
    return {'records': 0.8, 'lists': 0.8, 'n_der': (3, 5)}
  if k == 1:
    return {'agg': 0.5, 'combine': 0.5, 'neg': 0.4, 'argminmax': 0.3, 'n_der': (3, 5), 'max_facts': 4}
  if k == 2:
    return {'func': 0.9, 'inj': 0.9, 'or': 0.8, 'n_der': (3, 5)}
  return {'agg': 0.3, 'combine': 0.3, 'neg': 0.3, 'records': 0.7, 'lists': 0.7, 'n_der': (4, 6)}


def run_shard(ctx):
  pipeline.mods()
  pipeline.enable_library_memo()
  for i in range(ctx.params['n_programs']):
    run_case(ctx, ctx.rng.randrange(1 << 48), i)


def features_of_sql(sql):
  f = set()
  low = sql.lower()
  for name, marker in (('unnest', 'unnest('), ('unnest', 'json_each('), ('unnest', 'arrayjoin('), ('group_by', 'group by'), ('with', 'with '),
                       ('subscript', 'json_extract('), ('subscript', ').'), ('combine', '(select')):
    if marker in low:
      f.add(name)
  return f


def run_case(ctx, case_seed, i):
  rng = random.Random(case_seed)
  prog = progen.generate(rng, features_for(i))
  if i % 2:
    # plan-selecting annotations on intermediates: stored tables (@Ground), WITH tables shared by several parents,
    # inline sub-queries - the nesting of WITH clauses and the statements around them differ by dialect
    from vf.checks import c08
    from vf.gen import transform
    inter = c08.intermediates(prog)
    rng.shuffle(inter)
    anns = []
    for p in inter[:rng.choice([1, 2, 2, 3])]:
      anns.append((rng.choice(['Ground', 'Ground', 'With', 'With', 'NoInject', 'NoWith']), p))
    if anns:
      prog = transform.clone(prog)
      prog['annotations'] = list(prog['annotations']) + anns
      ctx.count('programs_with_plan_annotations')
      for a, _ in anns:
        ctx.count('annotation_' + a)
  base_text, _ = printer.program_text(prog)
  preds = [p for p in semantic.concrete_preds(prog) if prog['preds'][p]['kind'] != 'ext'][-3:] + \
      [p for p in prog['order'] if prog['preds'][p]['kind'] == 'ext'][:1]
  ctx.count('programs')
  for engine in ENGINES:
    text = base_text.replace('@Engine("sqlite")', '@Engine("%s")' % engine)
    rules, bad = pipeline.parse_program(text)
    for pred in preds:
      info = {'case_seed': case_seed, 'i': i, 'engine': engine, 'predicate': pred}
      ctx.journal(dict(info, program=text))
      out = bad if bad else pipeline.compile_only(text, pred, rules=rules)
      ctx.count('compilations')
      ctx.table('engines', engine, out.kind)
      if out.kind == 'diagnostic':
        ctx.count('diagnostics')
        ctx.case(stable_hash([base_text, engine, pred]), False)
        continue
      if out.kind == 'capped':
        continue
      if out.kind != 'sql':
        ctx.count('internal_errors')
        ctx.violation(classify_internal(engine, out), 'compiling %s for %s ends in an internal error %s: %s' % (pred, engine, out.exc_type, (out.message or '')[:200]),
                      dict(info, program=text, observed=out.brief()))
        continue
      problems = []
      for st in out.statements:
        if not st or not st.strip():
          continue
        ctx.count('statements_checked')
        for pb in scoper.check(st, engine):
          problems.append((pb, st))
      main = out.statements[-1]
      for f in features_of_sql(main):
        ctx.table('sql_features', engine, f)
      nontrivial = main.lower().count(' as ') >= 3 and '(select' in main.lower().replace('\n', ' ').replace('( select', '(select')
      if engine == 'sqlite':
        # calibration of the checker against the real engine
        ex = pipeline.execute_sqlite(out.statements)
        accepted = ex.kind in ('rows', 'capped')
        # SQLite tolerates forward references between WITH tables; the property asks for definition before use
        # textually, so that class is not part of the calibration
        calib = [p for p in problems if not p[0].startswith('WITH table')]
        if accepted == (not calib):
          ctx.count('sqlite_calibration_agree')
        else:
          ctx.count('sqlite_calibration_disagree')
          if accepted and calib:
            # the checker rejects what SQLite runs: a defect of the checker, not a finding
            raise RuntimeError('scoper calibration failed: SQLite accepts a statement the checker rejects: %s\n%s' % (calib[0][0], calib[0][1][-1500:]))
      ctx.case(stable_hash([base_text, engine, pred]), not problems and nontrivial)
      if not problems:
        ctx.count('sql_ok')
        ctx.count('sql_' + engine)
        if nontrivial and ctx.rng.random() < 0.002:
          ctx.sample({'engine': engine, 'predicate': pred, 'program': text[:600], 'sql_tail': main[-400:]})
        continue
      pb, st = problems[0]
      ctx.violation(None, 'SQL emitted for %s (%s) is not well-formed: %s' % (pred, engine, pb),
                    dict(info, program=text, statement=st[-2500:], problems=[p for p, _ in problems][:5]))


def classify_internal(engine, out):
  return None


def finalize(agg, tier):
  out = []
  c = agg['counters']
  for k in ['programs', 'compilations', 'sql_ok', 'statements_checked', 'sqlite_calibration_agree', 'programs_with_plan_annotations',
            'annotation_Ground', 'annotation_With'] + ['sql_' + e for e in ENGINES]:
    if not c.get(k):
      out.append('mandatory counter %s is zero' % k)
  return out


def replay(w):
  pipeline.mods()
  out = pipeline.compile_only(w['program'], w['predicate'])
  if out.kind == 'sql':
    pbs = [p for st in out.statements if st and st.strip() for p in scoper.check(st, w['engine'])]
    return bool(pbs), 'engine %s predicate %s\nproblems: %s\n%s' % (w['engine'], w['predicate'], pbs, out.statements[-1][-1500:])
  return out.kind == 'internal', 'engine %s predicate %s: %s' % (w['engine'], w['predicate'], out.brief())
