"""C14 workloads B and C: compiled plans executed as a workflow on SQLite.

B: generated programs with @Ground intermediates (chains of grounded reading grounded) and recursive programs whose
   depth forces the iterative plan are compiled by the real compiler and executed through
   concertina_lib.ExecuteLogicaProgram with tools/run_in_terminal.SqlRunner, exactly like `run_in_terminal`.
   The deciding observation is taken at the sql_runner boundary (every (sql, is_final) call, in order) together with the
   SQLite authorizer probe, which tells for every call which tables it really read / created.  The expectation is
   computed from what the compiler *declared* (execution.table_to_export_map, execution.iterations) and from the
   observed reads - never from concertina's own config:
     - a call may read a table that some call of the run creates only after that table has been produced (after the last
       creation if the reader is not a member of the iteration that produces it);
     - every non-iterated statement is started exactly once, every member of an iteration exactly `repetitions` times,
       members in their declared round-robin order, nothing else is started (termination = the count bound);
     - the is_final flag is set exactly on the statements of the requested predicates, and the returned rows are the rows
       of that statement.
C: every non-empty subset (<= 4 candidates, random request order) of predicates requested at once must return for each
   predicate the table obtained when it is requested alone (and, where the reference evaluator applies, what it denotes).
"""
import itertools
import random

from vf.checks import semantic
from vf.core.shard import stable_hash
from vf.gen import ir, printer, progen, transform
from vf.mon import pipeline, sqlite_probe
from vf.ref import compare, evaluator

RENAME = '⤓'


def deps_of(prog):
  direct = {}
  for r in prog['rules']:
    direct.setdefault(r['pred'], set()).update(ir.called_preds_rule(r))
  closure = {}

  def go(p, seen):
    for q in direct.get(p, ()):
      if q not in seen:
        seen.add(q)
        go(q, seen)
    return seen
  for p in direct:
    closure[p] = go(p, set())
  return direct, closure


def short(name):
  return str(name).split('.')[-1]


def expected_actions(executions):
  """{action name: set of admissible sql texts}, iterations, finals - from what the compiler declared."""
  finals = {e.main_predicate for e in executions}
  cand = {}
  for e in executions:
    pre = e.PredicateSpecificPreamble(e.main_predicate)
    for k, v in e.table_to_export_map.items():
      name = (RENAME + k) if (k in finals and k != e.main_predicate) else k
      cand.setdefault(name, set()).add(pre + v)
  iterations = {}
  for e in executions:
    for it, spec in e.iterations.items():
      iterations[it] = spec
  preambles = {e.preamble for e in executions if e.preamble}
  return cand, iterations, finals, preambles


def judge_plan(executions, calls, probe, requested):
  """Returns list of (what, details)."""
  out = []
  cand, iterations, finals, preambles = expected_actions(executions)
  member_of = {}
  for it, spec in iterations.items():
    for p in spec['predicates']:
      if p in cand:
        member_of[p] = it
  # attribute calls to actions
  names_of_sql = {}
  for n, sqls in cand.items():
    for s in sqls:
      names_of_sql.setdefault(s, set()).add(n)
  seq = []          # (call index, action name or None)
  starts = {}
  ambiguous = set()
  for i, c in enumerate(calls):
    if c['sql'] in preambles and c['sql'] not in names_of_sql:
      seq.append((i, None))
      if c['is_final']:
        out.append(('the preamble was run as a final statement', {'at': i}))
      continue
    ns = names_of_sql.get(c['sql'])
    if not ns:
      out.append(('a statement that is not part of the compiled plan was started', {'at': i, 'sql': c['sql'][:160]}))
      seq.append((i, None))
      continue
    if len(ns) > 1:
      ambiguous |= ns
    # prefer the reading consistent with the is_final flag
    pick = sorted(ns, key=lambda n: (((n in finals) != bool(c['is_final'])), n))[0]
    seq.append((i, pick))
    starts.setdefault(pick, []).append(i)
  # (2) exactly once / exactly repetitions
  for n in cand:
    if n in ambiguous:
      continue
    k = len(starts.get(n, []))
    if n in member_of:
      reps = iterations[member_of[n]]['repetitions']
      if k != reps:
        out.append(('a member of an iteration was started %d times, declared repetitions %d' % (k, reps), {'action': n}))
    elif k != 1:
      out.append(('a non-iterated statement was started %d times' % k, {'action': n}))
  if ambiguous:
    total = sum(len(starts.get(n, [])) for n in ambiguous)
    want = sum(iterations[member_of[n]]['repetitions'] if n in member_of else 1 for n in ambiguous)
    if total != want:
      out.append(('statements with identical text were started %d times in total, expected %d' % (total, want), {'actions': sorted(ambiguous)}))
  # (3) members run round-robin in the declared order
  for it, spec in iterations.items():
    order = [p for p in spec['predicates'] if p in cand]
    if not order:
      continue
    sub = [n for _, n in seq if n is not None and member_of.get(n) == it]
    full = order * spec['repetitions']
    if sub != full[:len(sub)]:
      k = next(j for j in range(min(len(sub), len(full))) if sub[j] != full[j]) if len(sub) <= len(full) else len(full)
      out.append(('the members of an iteration did not run in their declared order', {'iteration': it, 'position': k, 'declared': order, 'got': sub[:12]}))
  # is_final flags
  for i, n in seq:
    if n is None:
      continue
    if bool(calls[i]['is_final']) != (n in finals):
      out.append(('is_final flag does not match the requested predicates', {'action': n, 'is_final': calls[i]['is_final']}))
  # (1) observed reads: only after production
  created_at = {}
  reads_at = {}
  for i, c in enumerate(calls):
    for st in probe.per_statement[c['lo']:c['hi']]:
      for t in st['created']:
        created_at.setdefault(short(t), []).append(i)
      for t in st['read']:
        reads_at.setdefault(short(t), set()).add(i)
  name_at = dict(seq)
  producer_iter = {}
  for t, idx in created_at.items():
    its = {member_of.get(name_at.get(i)) for i in idx}
    producer_iter[t] = its - {None}
  n_read_edges = 0
  for t, readers in reads_at.items():
    if t not in created_at:
      continue
    w = created_at[t]
    for r in sorted(readers):
      n_read_edges += 1
      rn = name_at.get(r)
      same_iteration = rn is not None and member_of.get(rn) is not None and member_of.get(rn) in producer_iter[t]
      if same_iteration:
        if not any(x < r for x in w) and not (w and min(w) == r):
          out.append(('an iteration member read a table before any statement had produced it', {'reader': rn, 'table': t, 'at': r}))
      else:
        later = [x for x in w if x > r]
        if later or not any(x < r for x in w):
          if w and all(x == r for x in w):
            continue      # the statement creates the table it reads within one call (CREATE .. AS SELECT over itself is impossible; defensive)
          out.append(('a statement read a table before the statement(s) producing it had all run',
                      {'reader': rn, 'table': t, 'reader_at': r, 'produced_at': w}))
  # termination bound
  bound = sum(iterations[member_of[n]]['repetitions'] if n in member_of else 1 for n in cand) + len(preambles)
  if len(calls) > bound:
    out.append(('more statements were started than the plan allows (no termination within the bound)', {'started': len(calls), 'bound': bound}))
  return out, {'read_edges': n_read_edges, 'iter_members': len(member_of), 'renamed': sum(1 for n in cand if n.startswith(RENAME)),
               'actions': len(cand)}


# ------------------------------------------------------------------------------------------------ programs

def ground_program(rng, i):
  feats = ({'agg': 0.4, 'combine': 0.3, 'neg': 0.3, 'n_der': (3, 6), 'max_facts': 5} if i % 2
           else {'n_der': (4, 6), 'inj': 0.6, 'func': 0.5, 'max_facts': 5})
  prog = progen.generate(rng, feats)
  direct, closure = deps_of(prog)
  derived = [p for p in prog['order'] if prog['preds'][p]['kind'] in ('derived', 'fun')]
  readers_of = {p: [q for q in derived if p in closure.get(q, ())] for p in derived}
  cands = [p for p in derived if readers_of[p]]
  if not cands:
    return None
  rng.shuffle(cands)
  grounded = sorted(cands[:rng.choice([1, 2, 2, 3])], key=prog['order'].index)
  prog = transform.clone(prog)
  prog['annotations'] = list(prog['annotations']) + [('Ground', p) for p in grounded]
  # request candidates: grounded ones, their dependants, one unrelated
  dependants = [p for p in derived if closure.get(p, set()) & set(grounded)]
  pool = []
  for p in grounded + dependants + derived:
    if p not in pool:
      pool.append(p)
  head = pool[:2]
  rest = pool[2:]
  rng.shuffle(rest)
  req = head + rest[:2]
  chains = any(g2 in closure.get(g1, ()) for g1 in grounded for g2 in grounded if g1 != g2)
  return {'prog': prog, 'requests': req[:4], 'grounded': grounded, 'kind': 'ground', 'chains': chains, 'closure': closure}


def recursive_program(rng, tier):
  from vf.checks import c03
  for _ in range(20):
    b = c03.build(rng, tier)
    if b['template'] in ('tc_multiset',):
      continue
    break
  prog = b['prog']
  anns = [a for a in prog['annotations'] if a[0] != 'Recursive']
  comp = b['comp']
  depth = rng.choice([21, 22, 23, 24, 25, 28, 31]) if rng.random() < 0.7 else rng.choice([3, 5, 8])
  opts = () if depth > 20 else (('iterative', 'true'),)
  anns.append(('Recursive', min(comp), depth, opts))
  grounded = []
  if rng.random() < 0.5:
    anns.append(('Ground', 'Cons'))
    grounded.append('Cons')
  prog = dict(prog, annotations=anns)
  # a second consumer reading the first one and the component: final + intermediate at once
  prog['rules'] = list(prog['rules'])
  main = b['main']
  n_args = len(prog['preds'][main]['cols']) - (1 if prog['preds'][main]['kind'] == 'fun' else 0)
  from vf.gen.ir import V, N
  args = [V('d%d' % k) for k in range(n_args)]
  prog['rules'].append({'pred': 'Top', 'args': [(None, V('d0'), None)], 'value': None, 'distinct': False,
                        'body': ('and', (('call', 'Cons', ((None, V('d0')), ('n', V('m')))), ('call', main, tuple((None, a) for a in args))))})
  prog['preds'] = dict(prog['preds'])
  prog['preds']['Top'] = {'cols': [('col0', 'int')], 'fields': [None], 'kind': 'derived'}
  prog['order'] = list(prog['order']) + ['Top']
  req = list(comp)[:2] + ['Cons', 'Top']
  return {'prog': prog, 'requests': req[:4], 'grounded': grounded, 'kind': 'recursive', 'chains': False, 'comp': comp, 'depth': depth}


def table_key(o):
  return (list(o.columns), sorted(repr(r) for r in o.rows))


def run(ctx):
  pipeline.mods()
  pipeline.enable_library_memo()
  thorough = ctx.tier == 'thorough'
  n = 36 if thorough else 6
  for i in range(n):
    run_case(ctx, ctx.rng.randrange(1 << 48), i)


def run_case(ctx, case_seed, i):
  rng = random.Random(case_seed)
  b = recursive_program(rng, ctx.tier) if i % 3 == 2 else ground_program(rng, i)
  if b is None:
    ctx.count('B_no_candidates')
    return
  prog = b['prog']
  text, _ = printer.program_text(prog)
  info = {'kind': 'B', 'case_seed': case_seed, 'i': i, 'flavour': b['kind']}
  ctx.journal(dict(info, program=text))
  rules, bad = pipeline.parse_program(text)
  if bad:
    ctx.violation(None, 'generated workflow program rejected at parse: %s' % (bad.message or '')[:200], dict(info, program=text))
    return
  ctx.count('B_plans')
  ctx.count('B_flavour_' + b['kind'])
  if b['chains']:
    ctx.count('B_ground_chains')
  ev = None
  if b['kind'] == 'ground':
    ev = evaluator.Evaluator(prog, switches=semantic.baseline_switches())
  alone = {}
  usable = []

  def one(preds):
    probe = sqlite_probe.Probe()
    calls = []
    res, trace, ex = pipeline.run_workflow(text, preds, rules=rules, probe=probe, calls=calls)
    return res, calls, probe, ex

  def rejected_by_design(o):
    return o.kind == 'capped' or (o.kind == 'diagnostic' and any(m in (o.message or '') for m, _ in semantic.REJECTION_KINDS))

  for p in b['requests']:
    res, calls, probe, ex = one([p])
    wit = dict(info, program=text, requested=[p])
    if res is None:
      if rejected_by_design(ex):
        ctx.count('discarded')
        continue
      ctx.violation(None, 'workflow run of %s failed: %s %s' % (p, ex.exc_type, (ex.message or '')[:300]), dict(wit, observed=ex.brief(),
                    calls=[c['sql'][:80] for c in calls][-6:]))
      continue
    fails, stats = judge_plan(ex, calls, probe, [p])
    ctx.count('B_statements', len(calls))
    ctx.count('B_read_edges_checked', stats['read_edges'])
    ctx.count('B_iteration_members', stats['iter_members'])
    for what, det in fails[:3]:
      ctx.violation(None, 'plan for %s: %s %s' % (p, what, det), dict(wit, details=det, trace=[(c['sql'][:60], c['is_final']) for c in calls][:60]))
    alone[p] = res[p]
    usable.append(p)
    nontrivial = stats['read_edges'] >= 2 or stats['iter_members'] > 0
    if ev is not None:
      try:
        r = semantic.check_predicate(prog, text, rules, p, ev, run=lambda *a, **k: res[p])
        if r.status == 'mismatch':
          ctx.violation(None, 'workflow result of %s differs from the reference: %s' % (p, r.detail), semantic.witness(prog, text, r, wit))
        elif r.status == 'ok':
          ctx.count('B_rows_ok')
      except evaluator.Unsupported:
        pass
    ctx.case(stable_hash([text, [p]]), nontrivial and not fails)
  # C: all subsets of the usable candidates
  for k in range(2, len(usable) + 1):
    for sub in itertools.combinations(usable, k):
      order = list(sub)
      rng.shuffle(order)
      res, calls, probe, ex = one(order)
      wit = dict(info, kind='C', program=text, requested=order)
      ctx.count('C_subsets')
      if res is None:
        if rejected_by_design(ex):
          ctx.count('discarded')
          continue
        ctx.violation(None, 'requesting %s together failed although each alone works: %s %s' % (order, ex.exc_type, (ex.message or '')[:300]),
                      dict(wit, observed=ex.brief()))
        continue
      fails, stats = judge_plan(ex, calls, probe, order)
      ctx.count('B_statements', len(calls))
      ctx.count('B_read_edges_checked', stats['read_edges'])
      ctx.count('C_renamed_final_and_intermediate', stats['renamed'])
      for what, det in fails[:3]:
        ctx.violation(None, 'plan for %s together: %s %s' % (order, what, det), dict(wit, details=det, trace=[(c['sql'][:60], c['is_final']) for c in calls][:60]))
      same = True
      for p in order:
        if table_key(res[p]) != table_key(alone[p]):
          same = False
          ctx.violation(None, 'requested together with %s, %s returns a different table than alone' % ([q for q in order if q != p], p),
                        dict(wit, predicate=p, together=[res[p].columns] + res[p].rows[:20], alone=[alone[p].columns] + alone[p].rows[:20]))
      if same:
        ctx.count('C_same_as_alone')
      shared = stats['renamed'] > 0 or stats['read_edges'] >= 2
      ctx.case(stable_hash([text, sorted(order)]), shared and same and not fails)
      if same and stats['renamed'] and ctx.rng.random() < 0.05:
        ctx.sample({'workload': 'C', 'program': text, 'requested': order, 'statements': [(c['sql'][:50], c['is_final']) for c in calls][:14],
                    'rows': {p: res[p].rows[:5] for p in order}})


def replay(w):
  c = semantic.Collector()
  c.tier = w.get('tier', 'quick')
  pipeline.mods()
  run_case(c, w['case_seed'], w['i'])
  return c.report()
