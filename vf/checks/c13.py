"""C13 - compilation is a deterministic, history-free function of the program."""
import glob
import json
import os
import random
import shutil
import subprocess

from vf.core import repo
from vf.core.shard import stable_hash
from vf.gen import modules, printer, progen
from vf.native import build

ID = 'C13'
LEVEL = 'exploration'
RULE = ('a manifest of (program, predicate) entries per shard - generated programs with nested combines (name allocation), >= 3 functor '
        'applications, every recursion mode incl. iterative plans with @Iteration and stop files, import trees, the same programs retargeted '
        'to psql / duckdb / bigquery / trino / clickhouse (type-checked dialects), integration_tests/*.l, a program carrying the experimental-syntax '
        'incantation and programs whose text parses differently under it (2*F(x)) - is compiled by fresh worker processes: with PYTHONHASHSEED '
        '0,1,2,3 (quick) or 0..7 + 4 more (thorough), in three different orders (every entry then has different predecessors in its process), '
        'with three LogicaProgram instances built from one parsed rules object (and a deep comparison of that object before / after), and with the '
        'C++ parser; one evaluation = one (entry, run); all runs of an entry must give byte-identical FormattedPredicateSql text and '
        'table_to_export_map after masking /tmp/logical_stop_<digits>_; distinct = hash(entry text, predicate, run kind); non-trivial = the SQL '
        'contains an allocated name (x_N, t_N_...) or the program has a functor application')
ASSUMPTIONS = ['the only permitted variation is the time-stamped stop-file name', 'worker processes are fresh interpreters (no state shared with the harness)']
MIN_NONTRIVIAL = 100
REPORT_COUNTERS = ['entries', 'runs', 'comparisons', 'identical', 'hash_seed_runs', 'order_runs', 'reuse_runs', 'cpp_runs', 'rules_objects_checked',
                   'rules_objects_unchanged', 'entries_with_allocated_names', 'entries_compiling', 'class_generated', 'class_corpus', 'class_functors',
                   'class_recursive', 'class_imports', 'class_other_engine', 'class_incantation']


def plan(tier, seed):
  return {'nshards': 16, 'timeout_s': 7200 if tier == 'thorough' else 1200,
          'params': {'n_entries': 40 if tier == 'thorough' else 12, 'seeds': (list(range(8)) + [101, 977, 65537, 999983]) if tier == 'thorough' else [0, 1, 2, 3]}}


def prepare(tier, seed, out_dir):
  build.ensure('prod')
  return None


INCANTATION = '# Signa inter verba conjugo, symbolum infixus evoco!\n@Engine("sqlite");\nT(1);\nP(x) :- T(x);\n'
MANY_LOCALS = ('@Engine("sqlite");\nT(1, 2, 3, 4, 5, 6);\nT(2, 3, 4, 5, 6, 7);\nK(1);\n'
               'P(k, s, l) :- K(k), s == Sum{alpha + beta + gamma + delta + eps + zeta :- T(alpha, beta, gamma, delta, eps, zeta), alpha >= k},\n'
               '  l == List{uu + vv :- T(uu, vv, ww, xx, yy, zz), ww < xx, yy < zz, m == Max{pp :- T(pp, qq, rr, ss, tt, oo), qq > uu}};\n')
SENSITIVE = '@Engine("sqlite");\nF(x) = x + 1 :- x in [1, 2];\nG(y) :- y == 2*F(1);\nH(y) :- y == 2 * F(2);\n'


def make_manifest(rng, n, scratch):
  from vf.checks import c03, c04
  entries = []

  def add(klass, text, pred, **kw):
    entries.append(dict({'id': '%s-%d' % (klass, len(entries)), 'class': klass, 'text': text, 'predicate': pred}, **kw))
  add('incantation', INCANTATION, 'P')
  add('incantation', SENSITIVE, 'G')
  add('incantation', SENSITIVE, 'H')
  add('generated', MANY_LOCALS, 'P')
  corpus = sorted(glob.glob(os.path.join(repo.repo_root(), 'integration_tests', '*.l')))
  while len(entries) < n:
    k = rng.randrange(8)
    if k in (0, 1):
      prog = progen.generate(rng, {'agg': 0.5, 'combine': 0.7, 'neg': 0.5, 'argminmax': 0.3})
      text, _ = printer.program_text(prog)
      preds = [p for p in prog['order'] if prog['preds'][p]['kind'] not in ('inj', 'ext')]
      add('generated', text, rng.choice(preds))
      if rng.random() < 0.5:
        eng = rng.choice(['psql', 'duckdb', 'bigquery', 'trino', 'clickhouse', 'presto', 'databricks'])
        add('other_engine', text.replace('@Engine("sqlite")', '@Engine("%s")' % eng), rng.choice(preds))
    elif k == 2:
      b = None
      for _ in range(4):
        b = c04.build(rng)
        if b and len(b[1]) >= 2:
          break
      if b:
        text, _ = printer.program_text(b[0])
        add('functors', text, rng.choice([m[0] for m in b[1]]))
    elif k == 3:
      b = c03.build(rng, 'quick')
      text, _ = printer.program_text(b['prog'])
      add('recursive', text, b['main'])
    elif k == 4:
      prog = progen.generate(rng, {'n_der': (4, 6), 'combine': 0.3})
      sp = modules.split(prog, rng)
      root = os.path.join(scratch, 'imp%d' % len(entries))
      os.makedirs(root)
      modules.write_tree(root, sp['files'])
      preds = [p for p in sp['main_preds'] if prog['preds'][p]['kind'] != 'inj']
      if preds:
        add('imports', sp['main_text'], rng.choice(preds), import_root=root)
    else:
      f = corpus[rng.randrange(len(corpus))]
      try:
        text = open(f).read()
      except Exception:
        continue
      if 'import ' in text:
        add('corpus', text, 'Test', import_root=repo.repo_root())
      else:
        add('corpus', text, 'Test')
  return entries


def run_worker(entries, out_dir, tag, hashseed, cpp_lib=None, watch_state=False):
  mpath = os.path.join(out_dir, 'm_%s.json' % tag)
  opath = os.path.join(out_dir, 'o_%s.json' % tag)
  with open(mpath, 'w') as f:
    json.dump({'repo': repo.repo_root(), 'verif_root': repo.VERIF_ROOT, 'entries': entries, 'cpp_lib': cpp_lib, 'watch_state': watch_state}, f)
  env = dict(os.environ, PYTHONHASHSEED=str(hashseed), PYTHONDONTWRITEBYTECODE='1')
  env.pop('LOGICA_PARSER', None)
  p = subprocess.run([repo.PYTHON, os.path.join(repo.VERIF_ROOT, 'vf', 'checks', 'c13_worker.py'), mpath, opath], env=env, cwd=out_dir,
                     stdout=subprocess.PIPE, stderr=subprocess.PIPE, timeout=900)
  if p.returncode != 0 or not os.path.exists(opath):
    raise RuntimeError('worker %s failed rc=%s: %s' % (tag, p.returncode, p.stderr[-1500:].decode('utf-8', 'replace')))
  return {r['id']: r for r in json.load(open(opath))}


def run_shard(ctx):
  scratch = repo.scratch_dir('c13')
  try:
    run_all(ctx, scratch)
  finally:
    shutil.rmtree(scratch, ignore_errors=True)


def run_all(ctx, scratch, manifest_seed=None):
  rng = random.Random(manifest_seed if manifest_seed is not None else ctx.rng.randrange(1 << 48))
  mseed = manifest_seed if manifest_seed is not None else None
  entries = make_manifest(rng, ctx.params.get('n_entries', 22), scratch)
  ctx.journal({'entries': [e['id'] for e in entries]})
  seeds = ctx.params.get('seeds', [0, 1, 2, 3])
  runs = {}
  for s in seeds:
    runs['seed%d' % s] = run_worker(entries, scratch, 'seed%d' % s, s)
    ctx.count('hash_seed_runs')
  order_b = list(entries)
  random.Random(1).shuffle(order_b)
  runs['order_shuffled'] = run_worker(order_b, scratch, 'orderb', seeds[0], watch_state=True)
  runs['order_reversed'] = run_worker(list(reversed(entries)), scratch, 'orderc', seeds[0])
  # informational: which module / class level state of the repository changes while an entry is compiled, and
  # which side effects (file writes, environment writes, processes) the audit hook saw during compilations
  for e in entries:
    r = runs['order_shuffled'][e['id']]
    ctx.count('state_watched_compilations')
    for g in r.get('globals_changed', []):
      ctx.table('module_state_changed_by_a_compilation', g, e['class'])
    for ev in r.get('side_effects', []):
      ctx.count('audit_side_effects')
      ctx.table('audit_side_effects', ev.split(' ')[0], e['class'])
  ctx.count('order_runs', 2)
  runs['reuse3'] = run_worker([dict(e, reuse=3) for e in entries], scratch, 'reuse', seeds[0])
  ctx.count('reuse_runs')
  lib = build.ensure('prod')
  runs['cpp'] = run_worker([dict(e, parser='CPP') for e in entries], scratch, 'cpp', seeds[0], cpp_lib=lib)
  ctx.count('cpp_runs')
  base = runs['seed%d' % seeds[0]]
  for e in entries:
    b = base[e['id']]
    ctx.count('entries')
    ctx.count('class_' + e['class'])
    compiles = 'sql' in b
    if compiles:
      ctx.count('entries_compiling')
    import re
    allocated = compiles and bool(re.search(r'\bx_\d+|\bt_\d+_', b['sql']))
    if allocated:
      ctx.count('entries_with_allocated_names')
    nontrivial = allocated or e['class'] == 'functors'
    for name, run in runs.items():
      r = run[e['id']]
      ctx.count('runs')
      if name == 'seed%d' % seeds[0]:
        continue
      ctx.count('comparisons')
      hb, hr = b.get('hashes', [b.get('error')])[0], r.get('hashes', [r.get('error')])[0]
      both_rejected = ('sql' not in b) and ('sql' not in r) and str(hb).split(' ')[0] in ('error', 'parse') and str(hr).split(' ')[0] in ('error', 'parse')
      same = hb == hr or (both_rejected and name == 'cpp')     # the two parsers word their diagnostics differently
      kind = 'hash seed' if name.startswith('seed') else {'order_shuffled': 'history (shuffled order)', 'order_reversed': 'history (reversed order)',
                                                            'reuse3': 'object reuse', 'cpp': 'C++ parser'}[name]
      ctx.case(stable_hash([e['text'], e['predicate'], name]), same and nontrivial)
      if same:
        ctx.count('identical')
      else:
        suspects = sorted({g for x in entries for g in runs['order_shuffled'][x['id']].get('globals_changed', [])})[:30] if name.startswith('order') else []
        ctx.violation(classify(e, name, b, r), 'compilation of %s (%s) differs under %s: %s' % (e['predicate'], e['class'], kind, describe(b, r)),
                      {'kind': 'differs', 'entry': e, 'run': name, 'base': b.get('sql', b.get('error'))[:3000], 'other': r.get('sql', r.get('error'))[:3000],
                       'module_state_changed_by_compilations_of_this_process': suspects,
                       'order': [x['id'] for x in (order_b if name == 'order_shuffled' else entries)], 'manifest_seed': mseed})
    # object reuse: several programs from one rules object, and the caller-owned object itself
    r = runs['reuse3'][e['id']]
    if 'hashes' in r and len(r['hashes']) > 1:
      if len(set(r['hashes'])) > 1:
        ctx.violation(None, 'LogicaProgram built repeatedly from one parsed rules object gives different SQL for %s: %s' % (e['predicate'], r['hashes']),
                      {'kind': 'reuse', 'entry': e})
      if 'rules_unchanged' in r:
        ctx.count('rules_objects_checked')
        if r['rules_unchanged']:
          ctx.count('rules_objects_unchanged')
        else:
          ctx.violation(classify_rules_mutation(e, r), 'the caller-owned rules object is changed by compiling %s: %s' % (e['predicate'], r.get('rules_diff')),
                        {'kind': 'rules_mutated', 'entry': e, 'diff': r.get('rules_diff')})
    if nontrivial and compiles and ctx.rng.random() < 0.05:
      ctx.sample({'entry': e['id'], 'predicate': e['predicate'], 'program': e['text'][:500], 'sql_head': b['sql'][:300], 'runs_compared': sorted(runs)})


def describe(b, r):
  x, y = b.get('sql', b.get('error', '')), r.get('sql', r.get('error', ''))
  for i, (p, q) in enumerate(zip(x, y)):
    if p != q:
      return 'first difference at char %d: %r vs %r' % (i, x[max(0, i - 40):i + 40], y[max(0, i - 40):i + 40])
  return 'lengths %d vs %d' % (len(x), len(y))


def classify(e, run_name, b, r):
  return None


def classify_rules_mutation(e, r):
  return None


def finalize(agg, tier):
  out = []
  c = agg['counters']
  for k in ('entries', 'runs', 'comparisons', 'identical', 'hash_seed_runs', 'order_runs', 'reuse_runs', 'cpp_runs', 'rules_objects_checked',
            'rules_objects_unchanged', 'entries_with_allocated_names', 'entries_compiling', 'class_generated', 'class_corpus', 'class_functors',
            'class_recursive', 'class_imports', 'class_other_engine', 'class_incantation'):
    if not c.get(k):
      out.append('mandatory counter %s is zero' % k)
  return out


def replay(w):
  """Re-compiles the single entry of the witness in the configurations that differed."""
  scratch = repo.scratch_dir('c13r')
  try:
    e = w['entry']
    if e.get('import_root') and not os.path.exists(e['import_root']):
      return False, 'the import tree of this witness was in a scratch directory and is gone; re-run the check with the same seed'
    lib = build.ensure('prod')
    outs = {}
    for s in (0, 1, 2, 3):
      outs['seed%d' % s] = run_worker([e], scratch, 'r%d' % s, s)[e['id']]
    outs['after_incantation'] = run_worker([dict(e, history=[{'id': 'h', 'text': INCANTATION, 'predicate': 'P'}])], scratch, 'rh', 0)[e['id']]
    outs['reuse3'] = run_worker([dict(e, reuse=3)], scratch, 'rr', 0)[e['id']]
    outs['cpp'] = run_worker([dict(e, parser='CPP')], scratch, 'rc', 0, cpp_lib=lib)[e['id']]
    hs = {k: v.get('hashes', [v.get('error')]) for k, v in outs.items()}
    bad = len({h[0] for h in hs.values()}) > 1 or any(len(set(h)) > 1 for h in hs.values()) or outs['reuse3'].get('rules_unchanged') is False
    return bad, json.dumps({'hashes': hs, 'rules_unchanged': outs['reuse3'].get('rules_unchanged'), 'rules_diff': outs['reuse3'].get('rules_diff')}, indent=1)
  finally:
    shutil.rmtree(scratch, ignore_errors=True)
