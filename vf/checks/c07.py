"""C07 - results do not depend on the textual order or naming used in a program."""
import random

from vf.checks import semantic
from vf.core.shard import stable_hash
from vf.gen import printer, progen, transform
from vf.mon import hooks, pipeline
from vf.ref import compare, evaluator

ID = 'C07'
LEVEL = 'exploration'
RULE = ('base programs from the generators of C01/C02 (aggregation, negation, injection included); variants: permutation of all rules and '
        'facts (the arrival order of rows at aggregate UDFs), of conjuncts and disjuncts at every nesting level, consistent renaming of '
        'variables from small colliding pools (caller/callee, combine locals vs outer names of other rules, names that sort differently), '
        'renaming of predicates (reverse alphabetical, prefixes of each other); one evaluation = one (program, variant, predicate): both '
        'executed on SQLite through the real pipeline, rows compared as multisets keyed by column name (List element order and tie choices '
        'admitted through the reference); distinct = hash(base text, variant text, predicate); non-trivial = SQL text differs and >= 2 rows')
ASSUMPTIONS = ['admissible differences (List order, ArgMin/ArgMax ties) are taken from the reference evaluator',
               'the reference models SQLite including the deviations recorded as open C02 findings']
MIN_NONTRIVIAL = 100
REPORT_COUNTERS = ['programs', 'variants', 'comparisons', 'equal', 'equal_via_reference', 'both_rejected', 'sql_differs',
                   'kind_rules', 'kind_conjuncts', 'kind_vars', 'kind_preds', 'discarded']


def plan(tier, seed):
  return {'nshards': 16, 'timeout_s': 5400 if tier == 'thorough' else 1200,
          'params': {'n_programs': 50 if tier == 'thorough' else 9, 'n_variants': 10 if tier == 'thorough' else 6}}


def features_for(i):
  k = i % 3
  if k == 0:
    return {'named_perm': 0.3}
  if k == 1:
    return {'agg': 0.6, 'combine': 0.4, 'neg': 0.4, 'argminmax': 0.4, 'argk': 0.7, 'n_der': (3, 5), 'max_facts': 6}
  return {'agg': 0.3, 'combine': 0.3, 'neg': 0.3, 'inj': 0.9, 'func': 0.8, 'or': 0.8}


def make_variant(prog, rng, kind):
  mapping = None
  if kind == 'rules':
    v = transform.permute_rules(prog, rng)
  elif kind == 'conjuncts':
    v = transform.permute_conjuncts(prog, rng)
  elif kind == 'vars':
    v = transform.rename_variables(prog, rng)
  elif kind == 'preds':
    v, mapping = transform.rename_predicates(prog, rng)
  else:   # everything at once
    v = transform.permute_rules(prog, rng)
    v = transform.permute_conjuncts(v, rng)
    v = transform.rename_variables(v, rng)
    v, mapping = transform.rename_predicates(v, rng)
  return v, mapping or {}


def rows_by_name(out):
  cols = out.columns
  order = sorted(range(len(cols)), key=lambda i: cols[i])
  return [cols[i] for i in order], [[compare.decode_observed(r[i], None) for i in order] for r in out.rows]


def run_shard(ctx):
  pipeline.mods()
  pipeline.enable_library_memo()
  counters = hooks.install_counters(['UDF'])
  from vf.mon import udf_contracts
  udf_state = udf_contracts.install()
  for i in range(ctx.params['n_programs']):
    run_case(ctx, ctx.rng.randrange(1 << 48), i, ctx.params['n_variants'])
  for k, v in counters.items():
    ctx.count(k, v)
  ctx.count('udf_contract_evaluations', udf_state['evaluations'])


def run_case(ctx, case_seed, i, n_variants):
  rng = random.Random(case_seed)
  prog = None
  if i % 4 == 3:
    # programs with functor applications: the order in which the applications are built must not depend on the
    # names of the predicates either
    from vf.checks import c04
    built = c04.build(rng)
    if built:
      prog = built[0]
      ctx.count('programs_with_functor_applications')
  if prog is None:
    prog = progen.generate(rng, features_for(i))
  text, _ = printer.program_text(prog)
  info = {'case_seed': case_seed, 'i': i, 'n_variants': n_variants}
  ctx.journal(dict(info, program=text))
  ctx.count('programs')
  rules, bad = pipeline.parse_program(text)
  if bad:
    ctx.count('base_rejected_at_parse')
    return
  baseline = semantic.baseline_switches()
  preds = semantic.concrete_preds(prog)
  preds = [p for p in preds if prog['preds'][p]['kind'] != 'ext'][-4:] + [p for p in preds if prog['preds'][p]['kind'] == 'ext'][:1]
  base = {}
  for p in preds:
    base[p] = pipeline.run(text, p, rules=rules)
  ev = evaluator.Evaluator(prog, switches=dict(baseline))
  kinds = ['rules', 'conjuncts', 'vars', 'preds', 'all', 'all', 'rules', 'all', 'conjuncts', 'all']
  if prog.get('annotations') and any(a[0] == 'make' for a in prog['annotations']):
    kinds = ['preds', 'all', 'preds', 'rules', 'preds', 'all', 'preds', 'all', 'preds', 'all']
  for vi in range(n_variants):
    kind = kinds[vi % len(kinds)]
    variant, mapping = make_variant(prog, rng, kind)
    vtext, _ = printer.program_text(variant)
    ctx.count('variants')
    ctx.count('kind_' + ('all' if kind == 'all' else kind))
    vrules, vbad = pipeline.parse_program(vtext)
    for p in preds:
      b = base[p]
      vp = mapping.get(p, p)
      o = vbad if vbad else pipeline.run(vtext, vp, rules=vrules)
      ctx.count('comparisons')
      verdict, detail = judge(prog, p, b, o, ev)
      nontrivial = (b.kind == 'rows' and len(b.rows) >= 2 and o.kind == 'rows' and (o.sql or '') != (b.sql or ''))
      if o.kind == 'rows' and b.kind == 'rows' and (o.sql or '') != (b.sql or ''):
        ctx.count('sql_differs')
      ctx.case(stable_hash([text, vtext, p]), verdict in ('equal', 'equal_via_reference') and nontrivial)
      ctx.count(verdict)
      if verdict in ('equal', 'equal_via_reference', 'both_rejected', 'discarded'):
        if verdict == 'equal' and nontrivial and ctx.rng.random() < 0.004:
          ctx.sample({'base': text, 'variant': vtext, 'kind': kind, 'predicate': p, 'rows': b.rows[:6]})
        continue
      key = None
      if verdict == 'accepted_vs_rejected':
        rejected = o if o.kind == 'diagnostic' else b
        msg = rejected.message or ''
        kind_key = next((k for m, k in semantic.REJECTION_KINDS if m in msg), None)
        if kind_key and rejected.kind == 'diagnostic' and kind in ('conjuncts', 'all', 'vars', 'rules', 'preds'):
          key = 'C07/elimination-order/%s' % kind_key
      ctx.violation(key, '%s variant changes the result of %s: %s' % (kind, p, detail),
                    dict(info, program=text, variant=vtext, variant_kind=kind, predicate=p, variant_predicate=vp,
                         base_outcome=b.brief(), variant_outcome=o.brief()))
    # every row-arrival order this variant produced was observed by the UDF invariants
    semantic.report_udf_invariants(ctx, dict(info, program=text, variant=vtext, variant_kind=kind))


def judge(prog, pred, b, o, ev):
  if b.kind == 'capped' or o.kind == 'capped':
    return 'discarded', None
  if b.kind != 'rows' and o.kind != 'rows':
    if b.kind == o.kind:
      return 'both_rejected', None
    return 'outcome_kind_differs', '%s vs %s' % (b.kind, o.kind)
  if b.kind != 'rows' or o.kind != 'rows':
    return 'accepted_vs_rejected', 'base %s / variant %s: %s' % (b.kind, o.kind, ((o.message if o.kind != 'rows' else b.message) or '')[:200])
  bc, br = rows_by_name(b)
  oc, orr = rows_by_name(o)
  if len(bc) != len(oc):
    return 'columns_differ', '%s vs %s' % (bc, oc)
  if sorted(map(repr, br)) == sorted(map(repr, orr)) and (bc == oc):
    return 'equal', None
  # admissible differences: element order of List columns, choice among tied ArgMin/ArgMax candidates.
  # Which columns are List-like / may hold ties is read from the reference of the base program.
  def sort_lists(v):
    if isinstance(v, tuple) and v and v[0] == 'L':
      return ('L', tuple(sorted(v[1], key=repr)))
    return v
  try:
    cols, table = semantic.expected_table(ev, pred)
  except (evaluator.Capped, evaluator.Ambiguous, evaluator.Unsupported):
    if sorted(repr([sort_lists(v) for v in r]) for r in br) == sorted(repr([sort_lists(v) for v in r]) for r in orr):
      return 'equal_via_reference', None
    return 'discarded', None
  listlike, ties = set(), False
  for row in table:
    for c, v in zip(cols, row):
      u = evaluator.unbox(v)
      if isinstance(u, evaluator.Agg):
        if u.kind == 'multiset':
          listlike.add(c)
        elif u.kind == 'oneof':
          ties = True
      elif isinstance(u, tuple) and u and u[0] == 'LU':
        listlike.add(c)

  def norm_rows(names, rows):
    return sorted(repr([sort_lists(v) if n in listlike else v for n, v in zip(names, r)]) for r in rows)
  if bc == oc and norm_rows(bc, br) == norm_rows(oc, orr):
    return 'equal_via_reference', None
  if ties:
    types = semantic.col_types(prog, pred, cols)
    ok_b = compare.compare_tables(table, cols, cols_reorder(b, cols)[1], cols, types) is None
    ok_o = compare.compare_tables(table, cols, cols_reorder(o, cols)[1], cols, types) is None
    if ok_b and ok_o:
      return 'equal_via_reference', None
  return 'rows_differ', 'base rows %s / variant rows %s' % (b.rows[:8], o.rows[:8])


def cols_reorder(out, cols, rename=None):
  """Rows of `out` with columns put in the order `cols` (by name)."""
  names = list(out.columns)
  if set(names) != set(cols):
    return names, out.rows
  idx = [names.index(c) for c in cols]
  return cols, [[r[i] for i in idx] for r in out.rows]


def finalize(agg, tier):
  out = []
  c = agg['counters']
  for k in ('programs', 'variants', 'comparisons', 'equal', 'sql_differs', 'kind_rules', 'kind_conjuncts', 'kind_vars', 'kind_preds'):
    if not c.get(k):
      out.append('mandatory counter %s is zero' % k)
  return out


def replay(w):
  c = semantic.Collector()
  pipeline.mods()
  run_case(c, w['case_seed'], w['i'], w.get('n_variants', 6))
  return c.report()
