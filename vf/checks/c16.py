"""C16 - type unification is a symmetric idempotent meet; clash iff no common type.

Monitor: every Unify() of the real reference_algebra on freshly built TypeReference graphs is
observed through VeryConcreteType of both references and compared with the meet of the plain terms
(vf/ref/typemeet.py).  All ordered pairs of the constructed universe are enumerated in both tiers.
"""
import itertools
import os

from vf.core.shard import stable_hash
from vf.gen import typeterms
from vf.ref import typemeet as tm

ID = 'C16'
LEVEL = 'exploration'
RULE = ('all ordered pairs (a,b) of the term universe built by construction (atoms; lists and open/closed '
        'records over them; one more level over an 8-term core), each built as a fresh TypeReference graph in '
        'one of 4 shapes (raw nested values, reference at every node, reference chains, sub-references '
        'shared between a and b); one evaluation = one Unify observed through VeryConcreteType on both sides '
        '(+ the repeated Unify, + the swapped order); triples over a 56-term core in all constraint orders; '
        'sampled depth-3 terms. distinct = (term a, term b[, term c], shape); non-trivial = both terms '
        'composite, or the pair has no common instance')
ASSUMPTIONS = ['the meet in vf/ref/typemeet.py is the intended reading of the type lattice (Any top; Singular = '
               'scalars+records; Sequential = Str+lists; open/closed records by field sets)',
               'a clash is observed as a BadType anywhere inside either rendered side']
MIN_NONTRIVIAL = 1000
REPORT_COUNTERS = ['pairs', 'pairs_clash', 'pairs_meet', 'triples', 'triple_orders', 'deep_pairs', 'unify_calls']


def EXHAUSTIVE(tier):
  return True


def plan(tier, seed):
  return {'nshards': 16, 'timeout_s': 3000 if tier == 'thorough' else 900}


# ---------------------------------------------------------------------------------------------
# building real TypeReference graphs from plain terms

def build(ra, t, shape, rng, shared):
  """Returns a value usable as an element (raw or TypeReference) for term t."""
  def node(value, top=False):
    if shape == 0 and not top:
      return value
    if shape == 2 and rng.random() < 0.5:
      return ra.TypeReference(ra.TypeReference(ra.TypeReference(value)))
    return ra.TypeReference(value)

  def go(t, top=False):
    # Only fully ground sub-terms may be shared: sharing a node that can still be refined would
    # add an equality constraint between two positions and the graph would no longer denote the term.
    shareable = shape == 3 and not top and ground(t)
    if shareable and t in shared and rng.random() < 0.7:
      return shared[t]
    if isinstance(t, str):
      v = t
    elif t[0] == 'L':
      v = [go(t[1])]
    else:
      cls = ra.OpenRecord if t[0] == 'O' else ra.ClosedRecord
      v = cls({f: go(ft) for f, ft in t[1]})
    n = node(v, top)
    if shareable and isinstance(n, ra.TypeReference):
      shared.setdefault(t, n)
    return n
  r = go(t, top=True)
  assert isinstance(r, ra.TypeReference)
  return r


def ground(t):
  if isinstance(t, str):
    return t in tm.SCALARS
  if t[0] == 'L':
    return ground(t[1])
  return t[0] == 'C' and all(ground(v) for _, v in t[1])


def observe(ra, r):
  """VeryConcreteType of a reference turned into a plain term with BOTTOM for BadType."""
  def conv(c):
    if isinstance(c, ra.BadType):
      return tm.BOTTOM
    if isinstance(c, str):
      return c
    if isinstance(c, list):
      assert len(c) == 1, c
      return ('L', conv(c[0]))
    if isinstance(c, ra.OpenRecord):
      return tm.rec('O', {f: conv(v) for f, v in c.items()})
    if isinstance(c, ra.ClosedRecord):
      return tm.rec('C', {f: conv(v) for f, v in c.items()})
    raise AssertionError('unexpected concrete type %r' % (c,))
  return conv(ra.VeryConcreteType(r))


def one_pair(ra, ta, tb, shape, seed_int):
  """Runs Unify(a, b) on fresh graphs; returns the observations or an error string."""
  import random
  rng = random.Random(seed_int)
  shared = {}
  a = build(ra, ta, shape, rng, shared)
  b = build(ra, tb, shape, rng, shared)
  ra.Unify(a, b)
  oa, ob = observe(ra, a), observe(ra, b)
  ra.Unify(a, b)
  oa2, ob2 = observe(ra, a), observe(ra, b)
  ra.Unify(b, a)
  oa3, ob3 = observe(ra, a), observe(ra, b)
  return oa, ob, (oa2, ob2), (oa3, ob3)


def judge_pair(ra, ta, tb, shape, seed_int):
  """Returns list of (what, details) failures for this ordered pair."""
  fails = []
  expected = tm.meet(ta, tb)
  try:
    oa, ob, rep, rep_swapped = one_pair(ra, ta, tb, shape, seed_int)
    sa, sb, _, _ = one_pair(ra, tb, ta, shape, seed_int)   # swapped argument order, fresh graphs
  except Exception as e:  # the algebra must not raise on well-formed terms
    return [('internal error in Unify: %s: %s' % (type(e).__name__, e), {})], expected
  clash_seen = tm.is_bottom(oa) or tm.is_bottom(ob)
  if expected == tm.BOTTOM:
    if not clash_seen:
      fails.append(('no clash reported although the types have no common instance',
                    {'a_after': tm.render(oa), 'b_after': tm.render(ob)}))
  else:
    if clash_seen:
      fails.append(('clash reported although a common instance exists',
                    {'a_after': tm.render(oa), 'b_after': tm.render(ob), 'meet': tm.render(expected)}))
    else:
      if oa != ob:
        fails.append(('the two sides do not denote the same type after Unify',
                      {'a_after': tm.render(oa), 'b_after': tm.render(ob)}))
      if oa != expected or ob != expected:
        fails.append(('result is not the meet (a ground type or field was lost, or something was invented)',
                      {'a_after': tm.render(oa), 'b_after': tm.render(ob), 'meet': tm.render(expected)}))
  if rep != (oa, ob):
    fails.append(('a repeated Unify(a, b) changed something',
                  {'first': [tm.render(oa), tm.render(ob)], 'second': [tm.render(rep[0]), tm.render(rep[1])]}))
  if rep_swapped != (oa, ob):
    fails.append(('a following Unify(b, a) changed something',
                  {'first': [tm.render(oa), tm.render(ob)], 'second': [tm.render(rep_swapped[0]), tm.render(rep_swapped[1])]}))
  # symmetry: Unify(b, a) on fresh graphs; sa is b's side, sb is a's side
  sym_clash = tm.is_bottom(sa) or tm.is_bottom(sb)
  if sym_clash != clash_seen:
    fails.append(('clash status depends on the argument order', {'ab': [tm.render(oa), tm.render(ob)], 'ba': [tm.render(sb), tm.render(sa)]}))
  elif not clash_seen and (sb, sa) != (oa, ob):
    fails.append(('outcome depends on the argument order', {'ab': [tm.render(oa), tm.render(ob)], 'ba': [tm.render(sb), tm.render(sa)]}))
  return fails, expected


def judge_triple(ra, terms, constraints, shape, seed_int):
  """terms: 3 terms; constraints: tuple of index pairs in unification order."""
  import random
  rng = random.Random(seed_int)
  shared = {}
  refs = [build(ra, t, shape, rng, shared) for t in terms]
  for i, j in constraints:
    ra.Unify(refs[i], refs[j])
  return [observe(ra, r) for r in refs]


def run_shard(ctx):
  from type_inference.research import reference_algebra as ra
  # count real Unify calls (reach evidence); wrapper decides nothing
  real_unify = ra.Unify
  calls = [0]

  def counting_unify(a, b):
    calls[0] += 1
    return real_unify(a, b)
  ra.Unify = counting_unify

  terms, levels = typeterms.universe()
  if ctx.shard == 0:
    ctx.count('universe_terms', len(terms))
    for k, v in levels.items():
      ctx.count('universe_' + k, v)
  shapes = [0, 1, 2, 3] if ctx.tier == 'thorough' else None
  idx = 0
  for ia, ta in enumerate(terms):
    if ia % ctx.nshards != ctx.shard:
      continue
    for ib, tb in enumerate(terms):
      for shape in (shapes or [(ia * 7 + ib * 3 + ctx.seed) % 4]):
        case = {'a': tm.render(ta), 'b': tm.render(tb), 'shape': shape}
        sd = (ctx.seed * 1000003 + ia * 1009 + ib) & 0x7fffffff
        fails, expected = judge_pair(ra, ta, tb, shape, sd)
        nontrivial = (not isinstance(ta, str) and not isinstance(tb, str)) or expected == tm.BOTTOM
        ctx.case((ia, ib, shape), nontrivial)
        ctx.count('pairs')
        ctx.count('pairs_clash' if expected == tm.BOTTOM else 'pairs_meet')
        ctx.count('shape_%d' % shape)
        if idx % 20011 == 0:
          ctx.sample(dict(case, expected_meet=tm.render(expected)))
        idx += 1
        for what, details in fails:
          ctx.violation(None, what + ': Unify(%s, %s)' % (tm.render(ta), tm.render(tb)),
                        {'kind': 'pair', 'a': ta, 'b': tb, 'shape': shape, 'graph_seed': sd, 'details': details})

  # triples: every constraint set that connects the three references, in every order
  core = typeterms.triple_core()
  csets = []
  pairs = [(0, 1), (1, 2), (0, 2)]
  for k in (2, 3):
    for sub in itertools.combinations(pairs, k):
      for perm in itertools.permutations(sub):
        csets.append(perm)
  triples = list(itertools.combinations_with_replacement(range(len(core)), 3))
  if ctx.tier == 'quick':
    # stratified sample: every 7th triple, offset by seed
    triples = [t for n, t in enumerate(triples) if (n + ctx.seed) % 7 == 0]
  for n, (i, j, k) in enumerate(triples):
    if n % ctx.nshards != ctx.shard:
      continue
    ts = [core[i], core[j], core[k]]
    expected = tm.meet(ts[0], tm.meet(ts[1], ts[2]))
    shape = (i + j + k + ctx.seed) % 4
    outcomes = {}
    ctx.count('triples')
    err = None
    for cs in csets:
      for flip in (False, True):
        cs2 = tuple((b, a) for a, b in cs) if flip else cs
        try:
          obs = judge_triple(ra, ts, cs2, shape, n)
        except Exception as e:
          err = '%s: %s' % (type(e).__name__, e)
          break
        ctx.count('triple_orders')
        outcomes[str(cs2)] = obs
      if err:
        break
    nontrivial = sum(1 for t in ts if not isinstance(t, str)) >= 2 or expected == tm.BOTTOM
    ctx.case(('t', i, j, k), nontrivial)
    wit = {'kind': 'triple', 'terms': ts, 'shape': shape, 'graph_seed': n}
    desc = ', '.join(tm.render(t) for t in ts)
    if err:
      ctx.violation(None, 'internal error in Unify on triple (%s): %s' % (desc, err), wit)
      continue
    if expected != tm.BOTTOM:
      ctx.count('triples_clash_free')
      bad = {o: [tm.render(x) for x in obs] for o, obs in outcomes.items() if any(x != expected for x in obs)}
      if bad:
        o = sorted(bad)[0]
        ctx.violation(None, 'clash-free constraints over (%s): result depends on order / is not the meet %s: order %s gives %s' % (
            desc, tm.render(expected), o, bad[o]), dict(wit, bad_orders=bad, meet=tm.render(expected)))
    else:
      # The statement only speaks about clash-free constraint sets here.  What happens to an already
      # reported clash when unification continues is recorded as information, never as a verdict.
      ctx.count('triples_clash')
      silent = [o for o, obs in outcomes.items() if not any(tm.is_bottom(x) for x in obs)]
      if silent:
        ctx.count('info_triples_where_a_later_unify_erased_an_earlier_clash')
    if n % 3001 == 0:
      ctx.sample({'triple': [tm.render(t) for t in ts], 'meet': tm.render(expected), 'orders_tried': len(outcomes)})

  # sampled deeper terms (depth 3+)
  n_deep = 60000 if ctx.tier == 'thorough' else 4000
  for n in range(n_deep):
    ta = typeterms.random_term(ctx.rng, 3)
    tb = typeterms.random_term(ctx.rng, 3) if ctx.rng.random() < 0.5 else perturb(ctx.rng, ta)
    shape = ctx.rng.randrange(4)
    sd = ctx.rng.randrange(1 << 30)
    fails, expected = judge_pair(ra, ta, tb, shape, sd)
    ctx.count('deep_pairs')
    ctx.count('deep_clash' if expected == tm.BOTTOM else 'deep_meet')
    ctx.case(('d', tm.render(ta), tm.render(tb), shape), max(tm.depth(ta), tm.depth(tb)) >= 2)
    for what, details in fails:
      ctx.violation(None, what + ': Unify(%s, %s)' % (tm.render(ta), tm.render(tb)),
                    {'kind': 'pair', 'a': ta, 'b': tb, 'shape': shape, 'graph_seed': sd, 'details': details})
  ctx.count('unify_calls', calls[0])
  ra.Unify = real_unify


def perturb(rng, t):
  """A term close to t (so that deep meets are often non-bottom)."""
  if isinstance(t, str):
    return rng.choice(['Any', t, t, 'Singular', 'Num'])
  if t[0] == 'L':
    return ('L', perturb(rng, t[1])) if rng.random() < 0.9 else 'Sequential'
  fields = dict(t[1])
  for f in list(fields):
    r = rng.random()
    if r < 0.2 and t[0] == 'O':
      del fields[f]
    elif r < 0.7:
      fields[f] = perturb(rng, fields[f])
  kind = t[0] if rng.random() < 0.7 else rng.choice('OC')
  if kind == 'O' and rng.random() < 0.3:
    fields[rng.choice(['d', 2])] = rng.choice(['Num', 'Any'])
  return tm.rec(kind, fields)


def finalize(agg, tier):
  out = []
  c = agg['counters']
  for k in ('pairs', 'triples', 'deep_pairs', 'unify_calls', 'pairs_clash', 'pairs_meet', 'triples_clash_free'):
    if not c.get(k):
      out.append('mandatory counter %s is zero' % k)
  n = c.get('universe_terms', 0)
  shapes = 4 if tier == 'thorough' else 1
  if c.get('pairs', 0) != n * n * shapes:
    out.append('pair enumeration incomplete: %s of %s' % (c.get('pairs'), n * n * shapes))
  return out


def tolist(t):
  return t


def totuple(t):
  if isinstance(t, list):
    if t and t[0] in ('L',):
      return ('L', totuple(t[1]))
    if t and t[0] in ('O', 'C'):
      return (t[0], tuple((f, totuple(v)) for f, v in t[1]))
  return t


def replay(w):
  from type_inference.research import reference_algebra as ra
  lines = []
  if w['kind'] == 'pair':
    ta, tb = totuple(w['a']), totuple(w['b'])
    fails, expected = judge_pair(ra, ta, tb, w['shape'], w['graph_seed'])
    lines.append('Unify(%s, %s) shape=%d expected meet: %s' % (tm.render(ta), tm.render(tb), w['shape'], tm.render(expected)))
    for what, d in fails:
      lines.append('  FAIL %s %s' % (what, d))
    return bool(fails), '\n'.join(lines)
  ts = [totuple(t) for t in w['terms']]
  expected = tm.meet(ts[0], tm.meet(ts[1], ts[2]))
  bad = False
  pairs = [(0, 1), (1, 2), (0, 2)]
  for k in (2, 3):
    for sub in itertools.combinations(pairs, k):
      for perm in itertools.permutations(sub):
        for flip in (False, True):
          cs = tuple((b, a) for a, b in perm) if flip else perm
          try:
            obs = judge_triple(ra, ts, cs, w['shape'], w['graph_seed'])
          except Exception as e:
            lines.append('  %s -> %s' % (cs, e))
            bad = True
            continue
          ok = all(x == expected for x in obs) if expected != tm.BOTTOM else any(tm.is_bottom(x) for x in obs)
          if not ok:
            bad = True
            lines.append('  order %s -> %s (expected %s)' % (cs, [tm.render(x) for x in obs], tm.render(expected)))
  return bad, 'triple %s\n' % [tm.render(t) for t in ts] + '\n'.join(lines)
