"""C05 - type checking: accepts well-typed, rejects clashes, matches run-time values."""
import itertools
import json
import random

from vf.checks import semantic
from vf.core.shard import stable_hash
from vf.gen import ir, printer, progen, transform
from vf.gen.ir import V, N, S
from vf.mon import hooks, pipeline
from vf.ref import evaluator

ID = 'C05'
LEVEL = 'exploration'
RULE = ('generated programs whose every column type is ground by construction (Num, Str, Bool, lists, closed records; aggregation, combines, '
        'injection) compiled with @Engine("sqlite", type_checking: true) and for psql / duckdb / clickhouse (which check by default): (a) the '
        'program must be accepted and every predicate signature must render exactly as the generated types; (b) every value SQLite returns '
        'must inhabit the inferred type of its column; (c) single-point type corruptions (literal of another ground type in a typed position, '
        'one variable at two columns of different types, + on a Str, ++ on a Num, a field a closed record lacks, list vs scalar) must be '
        'rejected with TypeErrorCaughtException under every tried permutation of rules and conjuncts (all permutations of the corrupted rule when '
        '<= 24, else 12); one evaluation = one compile; distinct = hash(text, kind); non-trivial = a program with a composite type, an injected '
        'predicate or a combine, or a corruption inside a combine / disjunct')
ASSUMPTIONS = ['expected signatures are the generator\'s types rendered in the format of reference_algebra.RenderType',
               'only clashes between two ground types forced through variables / expressions are expected to be rejected']
MIN_NONTRIVIAL = 100
REPORT_COUNTERS = ['valid_programs', 'accepted', 'signatures_checked', 'signatures_exact', 'values_checked', 'values_inhabit', 'corrupted_compiles',
                   'corruptions_rejected', 'orders_tried', 'CheckForError', 'TypeInferenceForStructure', 'other_engines_accepted']
CORRUPTIONS = ['literal_of_other_type', 'variable_at_two_types', 'plus_on_str', 'concat_on_num', 'missing_field', 'list_vs_scalar',
               'variable_at_two_columns', 'composite_at_two_columns', 'two_values_of_other_predicates']


def plan(tier, seed):
  return {'nshards': 16, 'timeout_s': 5400 if tier == 'thorough' else 1200,
          'params': {'n_programs': 36 if tier == 'thorough' else 9}}


def render_type(t):
  if t == 'int':
    return 'Num'
  if t == 'str':
    return 'Str'
  if t == 'bool':
    return 'Bool'
  if t[0] == 'list':
    return '[%s]' % render_type(t[1])
  if t[0] == 'rec':
    return '{%s}' % ', '.join('%s: %s' % (f, render_type(ft)) for f, ft in sorted(t[1]))
  raise ValueError(t)


def inhabits(v, rendered):
  """Python value returned by SQLite vs a rendered type."""
  if v is None:
    return True
  if rendered == 'Num':
    return isinstance(v, (int, float)) and not isinstance(v, bool)
  if rendered == 'Str':
    return isinstance(v, str)
  if rendered == 'Bool':
    return v in (0, 1, True, False)
  if rendered in ('Any', 'Singular', 'Sequential'):
    return True
  if rendered.startswith('['):
    if isinstance(v, str):
      try:
        v = json.loads(v)
      except ValueError:
        return False
    return isinstance(v, list) and all(inhabits(x, rendered[1:-1]) for x in v)
  if rendered.startswith('{'):
    if isinstance(v, str):
      try:
        v = json.loads(v)
      except ValueError:
        return False
    if not isinstance(v, dict):
      return False
    fields = split_fields(rendered[1:-1])
    return set(v) == set(fields) and all(inhabits(v[f], ft) for f, ft in fields.items())
  return True


def split_fields(inner):
  out = {}
  depth = 0
  cur = ''
  parts = []
  for ch in inner:
    if ch in '[{':
      depth += 1
    elif ch in ']}':
      depth -= 1
    if ch == ',' and depth == 0:
      parts.append(cur)
      cur = ''
    else:
      cur += ch
  if cur.strip():
    parts.append(cur)
  for p in parts:
    if p.strip() == '...':
      continue
    f, t = p.split(':', 1)
    out[f.strip()] = t.strip()
  return out


def features_for(i):
  base = {'typed': True, 'bool_cols': 0.3}
  k = i % 3
  if k == 0:
    base.update({'records': 0.8, 'lists': 0.8})
  elif k == 1:
    base.update({'agg': 0.4, 'combine': 0.5, 'neg': 0.3, 'n_der': (3, 5)})
  else:
    base.update({'inj': 0.9, 'func': 0.9, 'or': 0.7})
  return base


def corrupt(prog, kind, rng):
  """Adds one conjunct with a ground-type clash to one rule. Returns (prog, rule index, site) or None."""
  cands = []
  for idx, r in enumerate(prog['rules']):
    if r.get('body') is None or prog['preds'][r['pred']]['kind'] not in ('derived', 'fun'):
      continue
    cands.append(idx)
  rng.shuffle(cands)
  for idx in cands:
    r = prog['rules'][idx]
    calls = [l for l in evaluator.flatten_and(r['body']) if l[0] == 'call' and prog['preds'].get(l[1], {}).get('kind') in ('ext', 'derived', 'fun')]
    # variables with their types, read off the calls of the rule
    var_types = {}
    for c in calls:
      meta = prog['preds'][c[1]]
      pi = 0
      for n, e in c[2]:
        col = ('col%d' % pi) if n is None else n
        if n is None:
          pi += 1
        if e[0] == 'var':
          var_types.setdefault(e[1], dict(meta['cols']).get(col))
    ints = sorted(v for v, t in var_types.items() if t == 'int')
    strs = sorted(v for v, t in var_types.items() if t == 'str')
    lists = sorted(v for v, t in var_types.items() if isinstance(t, tuple) and t[0] == 'list')
    recs = sorted(v for v, t in var_types.items() if isinstance(t, tuple) and t[0] == 'rec')
    w = 'tw9'
    lit = None
    if kind == 'literal_of_other_type' and ints:
      lit = ('cmp', '==', V(rng.choice(ints)), S('oops'))
    elif kind == 'literal_of_other_type' and strs:
      lit = ('cmp', '==', V(rng.choice(strs)), N(7))
    elif kind == 'variable_at_two_types' and ints and strs:
      lit = ('cmp', '==', V(rng.choice(ints)), V(rng.choice(strs)))
    elif kind == 'plus_on_str' and strs:
      lit = ('cmp', '==', V(w), ('bin', '+', V(rng.choice(strs)), N(1)))
    elif kind == 'concat_on_num' and ints:
      lit = ('cmp', '==', V(w), ('bin', '++', V(rng.choice(ints)), S('a')))
    elif kind == 'missing_field' and recs:
      lit = ('cmp', '==', V(w), ('field', V(rng.choice(recs)), 'nosuchfield'))
    elif kind == 'list_vs_scalar' and ints:
      lit = ('in', V(w), V(rng.choice(ints)))
    elif kind == 'list_vs_scalar' and lists:
      lit = ('cmp', '==', V(w), ('bin', '+', V(rng.choice(lists)), N(1)))
    if lit is None and kind in ('variable_at_two_columns', 'composite_at_two_columns'):
      # a variable typed by one call is passed to a column of another predicate whose (ground) type differs; the clash
      # only shows through the two predicates' signatures. composite_...: both types are lists / records
      want_comp = kind == 'composite_at_two_columns'
      vs = sorted(v for v, t in var_types.items() if t is not None and (isinstance(t, tuple) == want_comp))
      rng.shuffle(vs)
      for v in vs:
        t = var_types[v]
        targets = []
        for q in prog['order']:
          qm = prog['preds'][q]
          if qm['kind'] not in ('ext', 'derived', 'fun') or q == r['pred'] or qm.get('made'):
            continue
          if prog['order'].index(q) >= prog['order'].index(r['pred']):
            continue
          for (c, ct), f in zip(qm['cols'], qm['fields']):
            if ct != t and (isinstance(ct, tuple) == want_comp) and c != 'logica_value':
              targets.append((q, c, f))
        if not targets:
          continue
        q, c, f = rng.choice(targets)
        qm = prog['preds'][q]
        args = []
        k = 0
        for (c2, ct2), f2 in zip(qm['cols'], qm['fields']):
          if c2 == 'logica_value':
            continue
          if c2 == c:
            args.append((f2, V(v)))
          elif f2 is None:
            args.append((None, V('tw%d' % k)))     # positional arguments cannot be skipped
            k += 1
        lit = ('call', q, tuple(args))
        break
    if lit is None and kind == 'two_values_of_other_predicates':
      # x == F(..), x == G(..) where the two functional values have different ground types: nothing in this rule
      # names either type
      funs = [q for q in prog['order'] if prog['preds'][q]['kind'] == 'fun' and prog['order'].index(q) < prog['order'].index(r['pred'])
              and not any(isinstance(ct, tuple) for ct in [x[1] for x in prog['preds'][q]['cols'][:-1]])]
      pairs = [(a, b) for a in funs for b in funs if prog['preds'][a]['value_type'] != prog['preds'][b]['value_type']]
      if pairs:
        a, b = rng.choice(pairs)

        def fc(q):
          qm = prog['preds'][q]
          args = []
          for (c2, ct2), f2 in zip(qm['cols'], qm['fields']):
            if c2 == 'logica_value':
              continue
            cands = sorted(v for v, t in var_types.items() if t == ct2)
            args.append((f2, V(rng.choice(cands)) if cands else (N(1) if ct2 == 'int' else S('a'))))
          return ('fcall', q, tuple(args))
        lit = ('and', (('cmp', '==', V(w), fc(a)), ('cmp', '==', V(w), fc(b))))
    if lit is None:
      continue
    nr = dict(r)
    site = 'body'
    lits = list(evaluator.flatten_and(r['body']))
    # sometimes the clash sits inside a disjunct
    if rng.random() < 0.3:
      lit = ('or', (lit, ('and', (lit, ('cmp', '==', N(1), N(1))))))
      site = 'disjunct'
    lits.append(lit)
    nr['body'] = ('and', tuple(lits))
    p = transform.clone(prog)
    p['rules'] = [nr if j == idx else x for j, x in enumerate(prog['rules'])]
    return p, idx, site
  return None


def run_shard(ctx):
  m = pipeline.mods()
  pipeline.enable_library_memo()
  counters = hooks.install_counters(['Typecheck'])
  for i in range(ctx.params['n_programs']):
    run_case(ctx, ctx.rng.randrange(1 << 48), i, m)
  for k, v in counters.items():
    ctx.count(k, v)


def run_case(ctx, case_seed, i, m):
  ra = __import__('type_inference.research.reference_algebra', fromlist=['x'])
  rng = random.Random(case_seed)
  prog = progen.generate(rng, features_for(i))
  text, _ = printer.program_text(prog)
  info = {'case_seed': case_seed, 'i': i}
  ctx.journal(dict(info, program=text))
  ctx.count('valid_programs')
  rules, bad = pipeline.parse_program(text)
  if bad:
    ctx.violation(None, 'typed program rejected at parse: %s' % (bad.message or '')[:200], dict(info, program=text))
    return
  composite = any(isinstance(t, tuple) for p in prog['preds'].values() for _, t in p['cols'])
  nontrivial_prog = composite or bool(prog['features'].get('inj_call')) or bool(prog['features'].get('combine'))
  # (a) accepted with exactly the generated signatures
  try:
    lp = m['universe'].LogicaProgram(rules)
    accepted, err = True, None
  except m['diagnostics'] as e:
    accepted, err = False, '%s: %s' % (type(e).__name__, pipeline._msg(e)[:400])
    lp = None
  except Exception as e:
    accepted, err = False, 'internal %s: %s' % (type(e).__name__, str(e)[:300])
    lp = None
  ctx.case(stable_hash([text, 'valid']), accepted and nontrivial_prog)
  if not accepted:
    ctx.violation(classify_rejection(err), 'well-typed program is rejected by the type checker: %s' % err, dict(info, program=text))
  else:
    ctx.count('accepted')
    inferred = {}
    for p in semantic.concrete_preds(prog) + [q for q in prog['order'] if prog['preds'][q]['kind'] == 'inj']:
      sig = lp.predicate_signatures.get(p)
      if sig is None:
        continue
      meta = prog['preds'][p]
      got = {}
      for f, ref in sig.items():
        col = ('col%d' % f) if isinstance(f, int) else f
        got[col] = ra.RenderType(ra.VeryConcreteType(ref))
      want = {c: render_type(t) for c, t in meta['cols']}
      inferred[p] = got
      ctx.count('signatures_checked')
      if got == want:
        ctx.count('signatures_exact')
      else:
        ctx.violation(None, 'signature of %s is %s, the program fixes %s' % (p, got, want), dict(info, program=text, predicate=p))
    # (b) run-time values inhabit the inferred column types
    for p in semantic.concrete_preds(prog)[-4:]:
      out = pipeline.run(text, p, rules=rules)
      if out.kind != 'rows':
        continue
      sig = inferred.get(p, {})
      for row in out.rows[:50]:
        for c, v in zip(out.columns, row):
          ctx.count('values_checked')
          if inhabits(v, sig.get(c, 'Any')):
            ctx.count('values_inhabit')
          else:
            ctx.violation(None, 'value %r of column %s of %s does not inhabit the inferred type %s' % (v, c, p, sig.get(c)),
                          dict(info, program=text, predicate=p))
    # the engines that check by default must accept the program too
    if i % 4 == 0:
      for eng in ('psql', 'duckdb', 'clickhouse'):
        t2 = text.replace('@Engine("sqlite", type_checking: true)', '@Engine("%s")' % eng)
        r2, b2 = pipeline.parse_program(t2)
        try:
          m['universe'].LogicaProgram(r2)
          ctx.count('other_engines_accepted')
        except m['infer'].TypeErrorCaughtException as e:
          ctx.violation(None, 'well-typed program is rejected by the type checker for %s: %s' % (eng, pipeline._msg(e)[:300]), dict(info, program=t2))
        except Exception:
          ctx.count('other_engine_other_failure')
  # (c) corruptions, under permutations
  for kind in CORRUPTIONS:
    c = corrupt(prog, kind, rng)
    if c is None:
      ctx.count('not_applicable_' + kind)
      continue
    cprog, idx, site = c
    orders = transform.all_conjunct_orders(cprog['rules'][idx], limit=24)
    variants = []
    if orders is None:
      for k in range(12):
        variants.append(transform.permute_conjuncts(cprog, random.Random(k), disj=False))
    else:
      for o in orders[:24]:
        v = transform.clone(cprog)
        v['rules'] = [o if j == idx else x for j, x in enumerate(cprog['rules'])]
        variants.append(v)
    variants = variants[:12] if ctx.tier == 'quick' else variants
    variants.append(transform.permute_rules(cprog, random.Random(idx)))
    for v in variants:
      vtext, _ = printer.program_text(v)
      ctx.count('corrupted_compiles')
      ctx.count('orders_tried')
      vr, vb = pipeline.parse_program(vtext)
      verdict = None
      if vb:
        verdict = 'parse: %s' % (vb.message or '')[:100]
      else:
        try:
          m['universe'].LogicaProgram(vr)
          verdict = 'accepted'
        except m['infer'].TypeErrorCaughtException:
          verdict = 'type_error'
        except m['diagnostics'] as e:
          verdict = 'other diagnostic %s: %s' % (type(e).__name__, pipeline._msg(e)[:150])
        except Exception as e:
          verdict = 'internal %s: %s' % (type(e).__name__, str(e)[:150])
      ctx.case(stable_hash([vtext, kind]), verdict == 'type_error' and (site == 'disjunct' or nontrivial_prog))
      ctx.table('corruptions', kind, verdict.split(':')[0].split(' ')[0])
      if verdict == 'type_error':
        ctx.count('corruptions_rejected')
        continue
      ctx.violation(None, 'type corruption %s (%s) is not rejected with a type error: %s' % (kind, site, verdict),
                    dict(info, program=vtext, corruption=kind, site=site))
      break


def classify_rejection(err):
  return None


def finalize(agg, tier):
  out = []
  c = agg['counters']
  for k in ('valid_programs', 'accepted', 'signatures_checked', 'signatures_exact', 'values_checked', 'values_inhabit', 'corrupted_compiles',
            'corruptions_rejected', 'CheckForError', 'other_engines_accepted'):
    if not c.get(k):
      out.append('mandatory counter %s is zero' % k)
  return out


def replay(w):
  c = semantic.Collector()
  m = pipeline.mods()
  run_case(c, w['case_seed'], w['i'], m)
  return c.report()
