"""C11 - documented shorthand forms mean the same as their long forms."""
import random

from vf.checks import semantic, c07
from vf.core.shard import stable_hash
from vf.gen import ir, printer, progen, transform
from vf.mon import pipeline
from vf.ref import evaluator

ID = 'C11'
LEVEL = 'exploration'
RULE = ('programs from the C01/C02 generators printed under different spelling policies: each documented equivalence toggled at all '
        'occurrences, at single occurrences, and in random mixes - positional <-> colN:, `a:` <-> `a: a`, F(x) = v <-> F(x, logica_value: v), '
        'functional call <-> extra conjunct, = <-> ==, ~P <-> Max{1 :- P} is null, A => B <-> ~(A, ~B), the three combine spellings, '
        'x in [a, b] <-> (x == a | x == b), several rules <-> one rule with |, P(k) Op= e <-> P(k, logica_value? Op= e) distinct; '
        'one evaluation = one (program, spelling, predicate): both spellings executed on SQLite through the real pipeline and compared as '
        'multisets; distinct = hash(base text, variant text, predicate); non-trivial = texts differ and the result has >= 1 row')
ASSUMPTIONS = ['admissible differences (List order, ties) as in C07', 'the printer spells exactly the documented forms (docs/learn/logica.md, docs/syntax.md)']
MIN_NONTRIVIAL = 100
KINDS = ['positional', 'short_named', 'value', 'assign', 'neg', 'imp', 'comb', 'in_list', 'head_agg']
REPORT_COUNTERS = ['programs', 'variants', 'comparisons', 'equal', 'equal_via_reference', 'both_rejected', 'discarded'] + \
    ['toggled_' + k for k in KINDS] + ['toggled_fcall_as_conjunct', 'toggled_rules_as_disjunction', 'single_occurrence_toggles']


def plan(tier, seed):
  return {'nshards': 16, 'timeout_s': 5400 if tier == 'thorough' else 1200,
          'params': {'n_programs': 25 if tier == 'thorough' else 5, 'singles': 8 if tier == 'thorough' else 3}}


FOCUS = {'func': 1.0, 'fcall_boost': 0.5, 'lists': 1.0, 'in_filter_rate': 0.6, 'records': 0.1, 'inj': 0.2, 'or': 0.2,
         'n_der': (2, 3), 'n_ext': (2, 3), 'max_facts': 5}


def features_for(i):
  if i >= 1000:
    # focused small programs: repeated functional calls over multi-valued functions, `in` filters with computed and
    # repeated elements - the places where `F(x)` vs an extra conjunct and `in` vs a disjunction count multiplicities
    return FOCUS
  k = i % 3
  if k == 0:
    return {'func': 0.9, 'inj': 0.8, 'n_der': (3, 5)}
  if k == 1:
    return {'agg': 0.5, 'combine': 0.6, 'neg': 0.6, 'argminmax': 0.3, 'n_der': (3, 5), 'max_facts': 5, 'func': 0.8}
  return {'agg': 0.6, 'combine': 0.3, 'neg': 0.3, 'n_der': (3, 5), 'func': 0.9}


class _Fresh:
  fresh = 0


def fcalls_as_conjuncts(prog):
  """Every functional call in an expression becomes an extra conjunct binding logica_value."""
  p = transform.clone(prog)
  holder = _Fresh()
  out = []
  for r in p['rules']:
    if r.get('body') is None and not _has_fcall(r):
      out.append(r)
      continue
    out.append(evaluator.hoist_rule(r, holder))
  p['rules'] = out
  return p


def _has_fcall(rule):
  found = []

  def fe(e):
    if e[0] == 'fcall':
      found.append(1)
    return e
  ir.map_rule(rule, fe, ir.ident)
  return bool(found)


def rules_as_disjunction(prog, rng):
  """Several non-aggregating rules of one predicate become one rule with `|` (heads unified through fresh variables)."""
  p = transform.clone(prog)
  by_pred = {}
  for r in p['rules']:
    by_pred.setdefault(r['pred'], []).append(r)
  merged = set()
  out = []
  n = 0
  for r in p['rules']:
    pred = r['pred']
    rs = by_pred[pred]
    if pred in merged:
      continue
    ok = (len(rs) >= 2 and all(x.get('body') is not None and not x.get('distinct') for x in rs)
          and all([a[0] for a in x['args']] == [a[0] for a in rs[0]['args']] for x in rs)
          and all((x.get('value') is None) == (rs[0].get('value') is None) for x in rs)
          and p['preds'].get(pred, {}).get('kind') != 'inj')
    if not ok:
      out.append(r)
      continue
    merged.add(pred)
    n += 1
    hv = ['h%d_' % i for i in range(len(rs[0]['args']) + 1)]
    alts = []
    for x in rs:
      used = ir.rule_vars(x)
      mapping = {v: v for v in used}
      lits = list(evaluator.flatten_and(x['body']))
      for i, (f, e, _) in enumerate(x['args']):
        lits.append(('cmp', '==', ('var', hv[i]), e))
      if x.get('value') is not None:
        lits.append(('cmp', '==', ('var', hv[-1]), x['value'][0]))
      alts.append(('and', tuple(lits)))
    new = {'pred': pred, 'args': [(f, ('var', hv[i]), None) for i, (f, _, _) in enumerate(rs[0]['args'])],
           'value': (('var', hv[-1]), None) if rs[0].get('value') is not None else None,
           'distinct': False, 'body': ('or', tuple(alts))}
    out.append(new)
  p['rules'] = out
  return p, n


def run_shard(ctx):
  pipeline.mods()
  pipeline.enable_library_memo()
  for i in range(ctx.params['n_programs']):
    run_case(ctx, ctx.rng.randrange(1 << 48), i, ctx.params['singles'])
  for i in range(ctx.params['n_programs'] * 2):
    run_case(ctx, ctx.rng.randrange(1 << 48), 1000 + i, 1, only=('all_in_list', 'fcall_as_conjunct', 'all_value'))
    ctx.count('focus_programs')


def run_case(ctx, case_seed, i, singles, only=None):
  rng = random.Random(case_seed)
  prog = progen.generate(rng, features_for(i))
  base_policy = printer.Policy()
  text, pr = printer.program_text(prog, base_policy)
  sites = dict(base_policy.sites)
  info = {'case_seed': case_seed, 'i': i, 'singles': singles, 'only': list(only) if only else None}
  ctx.journal(dict(info, program=text))
  ctx.count('programs')
  rules, bad = pipeline.parse_program(text)
  if bad:
    ctx.count('base_rejected_at_parse')
    ctx.violation(None, 'canonical spelling rejected at parse: %s' % (bad.message or '')[:200], dict(info, program=text))
    return
  baseline = semantic.baseline_switches()
  ev = evaluator.Evaluator(prog, switches=dict(baseline))
  preds = [p for p in semantic.concrete_preds(prog) if prog['preds'][p]['kind'] != 'ext'][-4:]
  base = {p: pipeline.run(text, p, rules=rules) for p in preds}

  variants = []
  for kind in KINDS:
    if not sites.get(kind):
      continue
    for alt in printer.Policy.OPTIONS[kind][1:]:
      variants.append(('all_' + kind, prog, printer.Policy(defaults={kind: alt}), kind))
  # single occurrences
  all_sites = [(k, j) for k in KINDS for j in range(sites.get(k, 0))]
  rng.shuffle(all_sites)
  for k, j in all_sites[:singles]:
    alt = rng.choice(printer.Policy.OPTIONS[k][1:])
    variants.append(('single_%s_%d' % (k, j), prog, printer.Policy(overrides={(k, j): alt}), k))
  # random mixes
  for m in range(2):
    variants.append(('mix_%d' % m, prog, printer.Policy(rng=random.Random(rng.randrange(1 << 30)), probs={k: 0.5 for k in KINDS}), None))
  # IR-level equivalences
  pf = fcalls_as_conjuncts(prog)
  variants.append(('fcall_as_conjunct', pf, printer.Policy(), 'fcall'))
  pd, n_merged = rules_as_disjunction(prog, rng)
  if n_merged:
    variants.append(('rules_as_disjunction', pd, printer.Policy(), 'rules'))

  for name, vprog, pol, kind in variants:
    if only is not None and name not in only:
      continue
    vtext, _ = printer.program_text(vprog, pol)
    if vtext == text:
      continue
    ctx.count('variants')
    if name.startswith('all_'):
      ctx.count('toggled_' + kind)
    elif name.startswith('single_'):
      ctx.count('single_occurrence_toggles')
    elif kind == 'fcall':
      ctx.count('toggled_fcall_as_conjunct')
    elif kind == 'rules':
      ctx.count('toggled_rules_as_disjunction')
    vrules, vbad = pipeline.parse_program(vtext)
    for p in preds:
      b = base[p]
      o = vbad if vbad else pipeline.run(vtext, p, rules=vrules)
      ctx.count('comparisons')
      verdict, detail = c07.judge(prog, p, b, o, ev)
      nontrivial = b.kind == 'rows' and len(b.rows) >= 1
      ctx.case(stable_hash([text, vtext, p]), verdict in ('equal', 'equal_via_reference') and nontrivial)
      ctx.count(verdict)
      if verdict in ('equal', 'equal_via_reference', 'both_rejected', 'discarded'):
        if nontrivial and ctx.rng.random() < 0.003:
          ctx.sample({'base': text, 'variant': vtext, 'spelling': name, 'predicate': p, 'rows': b.rows[:5]})
        continue
      key = None
      if verdict == 'accepted_vs_rejected':
        rejected = o if o.kind != 'rows' else b
        kk = next((k for m, k in semantic.REJECTION_KINDS if m in (rejected.message or '')), None)
        if kk and rejected.kind == 'diagnostic':
          key = 'C11/elimination-order/%s' % kk
        msg = rejected.message or ''
        if rejected is o and 'Signature differs for bodies of' in msg and ('positional' in name or name.startswith('mix_')):
          # recorded mechanism: bodies of one multi-body aggregating predicate spelling the same argument
          # once positionally and once as colN are compared textually
          multi = [q for q in prog['order'] if prog['preds'][q].get('agg') and sum(1 for r in prog['rules'] if r['pred'] == q) >= 2]
          if any(('of \x1b[1m%s\x1b[0m' % q) in msg or ('>>%s<<' % q) in msg or (' %s.' % q) in msg or q in msg for q in multi):
            key = 'C11/positional-colN/multi-body-signature'
      ctx.violation(key, 'spelling %s changes the result of %s: %s' % (name, p, detail),
                    dict(info, program=text, variant=vtext, spelling=name, predicate=p, base_outcome=b.brief(), variant_outcome=o.brief()))


def finalize(agg, tier):
  out = []
  c = agg['counters']
  for k in ['programs', 'variants', 'comparisons', 'equal', 'toggled_fcall_as_conjunct', 'toggled_rules_as_disjunction',
            'single_occurrence_toggles'] + ['toggled_' + k for k in KINDS]:
    if not c.get(k):
      out.append('mandatory counter %s is zero' % k)
  return out


def replay(w):
  c = semantic.Collector()
  pipeline.mods()
  run_case(c, w['case_seed'], w['i'], w.get('singles', 3), only=tuple(w['only']) if w.get('only') else None)
  return c.report()
