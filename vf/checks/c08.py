"""C08 - plan-selecting annotations (@NoInject / @With / @NoWith / @Ground) never change results."""
import itertools
import random

from vf.checks import semantic, c07
from vf.core.shard import stable_hash
from vf.gen import printer, progen, transform
from vf.mon import hooks, pipeline, sqlite_probe
from vf.ref import evaluator

ID = 'C08'
LEVEL = 'exploration'
RULE = ('programs from the C01/C02 generators with k <= 3 intermediate concrete predicates that other predicates read; every assignment '
        'of {none, @NoInject, @With, @NoWith, @Ground} to them (5^k, all of them for k <= 2 in quick and k <= 3 in thorough, else a sample); '
        'one evaluation = one (program, assignment, predicate) executed on SQLite through the real pipeline and compared with the '
        'unannotated run (and that one with the reference evaluator); distinct = hash(program, assignment, predicate); non-trivial = the '
        'SQL text differs from the unannotated one and the result has >= 2 rows')
ASSUMPTIONS = ['admissible differences (List order, ties) as in C07', 'the sqlite probe (authorizer) sees CREATE TABLE / reads of grounded tables']
MIN_NONTRIVIAL = 100
REPORT_COUNTERS = ['programs', 'assignments', 'comparisons', 'equal', 'equal_via_reference', 'sql_differs', 'with_in_sql',
                   'grounded_table_created', 'grounded_table_read', 'injections', 'base_matches_reference', 'discarded']
OPTIONS = [None, 'NoInject', 'With', 'NoWith', 'Ground']


def plan(tier, seed):
  return {'nshards': 16, 'timeout_s': 5400 if tier == 'thorough' else 1200,
          'params': {'n_programs': 16 if tier == 'thorough' else 8, 'max_k': 3 if tier == 'thorough' else 2,
                     'max_assignments': 40 if tier == 'thorough' else 8}}


def features_for(i):
  k = i % 3
  if k == 0:
    return {'inj': 0.9, 'func': 0.8, 'n_der': (4, 6)}
  if k == 1:
    return {'agg': 0.4, 'combine': 0.5, 'neg': 0.5, 'n_der': (4, 6), 'max_facts': 5}
  return {'agg': 0.3, 'combine': 0.3, 'neg': 0.3, 'n_der': (4, 6), 'or': 0.8}


def intermediates(prog):
  """Concrete derived predicates that some other predicate reads."""
  called = {}
  for r in prog['rules']:
    from vf.gen import ir
    for q in ir.called_preds_rule(r):
      if q != r['pred']:
        called.setdefault(q, set()).add(r['pred'])
  return [p for p in prog['order'] if prog['preds'][p]['kind'] in ('derived', 'fun') and p in called]


def run_shard(ctx):
  pipeline.mods()
  pipeline.enable_library_memo()
  counters = hooks.install_counters(['RunInjections'])
  for i in range(ctx.params['n_programs']):
    run_case(ctx, ctx.rng.randrange(1 << 48), i, ctx.params['max_k'], ctx.params['max_assignments'])
  ctx.count('injections', counters.get('injections', 0))


def run_case(ctx, case_seed, i, max_k, max_assignments):
  rng = random.Random(case_seed)
  prog = progen.generate(rng, features_for(i))
  text, _ = printer.program_text(prog)
  info = {'case_seed': case_seed, 'i': i, 'max_k': max_k, 'max_assignments': max_assignments}
  ctx.journal(dict(info, program=text))
  inter = intermediates(prog)
  if not inter:
    ctx.count('no_intermediates')
    return
  ctx.count('programs')
  rng.shuffle(inter)
  if rng.random() < 0.6:
    # plan annotations matter most for predicates the compiler would otherwise inline: single-rule, non-aggregating
    n_rules = {}
    for r in prog['rules']:
      n_rules[r['pred']] = n_rules.get(r['pred'], 0) + 1
    inter.sort(key=lambda p: 0 if (n_rules.get(p) == 1 and not prog['preds'][p].get('agg')) else 1)
  headed = [p for p in inter if prog['preds'][p].get('combine_headed')]
  if headed:
    # a body-less predicate whose head is an aggregating expression is inlined with its local variables: always a candidate
    inter = headed[:1] + [p for p in inter if p not in headed[:1]]
  inter = sorted(inter[:max_k], key=prog['order'].index)
  rules, bad = pipeline.parse_program(text)
  if bad:
    return
  baseline = semantic.baseline_switches()
  ev = evaluator.Evaluator(prog, switches=dict(baseline))
  # predicates to observe: the annotated ones and up to three that read them (directly or not), latest first
  preds = [p for p in semantic.concrete_preds(prog) if prog['preds'][p]['kind'] != 'ext']
  from vf.gen import ir as _ir
  readers = [r['pred'] for r in prog['rules'] if _ir.called_preds_rule(r) & set(inter) and r['pred'] not in inter]
  watch = list(dict.fromkeys(inter + readers[:3] + preds[-2:]))
  base = {}
  for p in watch:
    base[p] = pipeline.run(text, p, rules=rules)
    try:
      res = semantic.check_predicate(prog, text, rules, p, ev, run=lambda *a, **k: base[p])
      if res.status == 'ok':
        ctx.count('base_matches_reference')
    except evaluator.Unsupported:
      pass
  assignments = list(itertools.product(OPTIONS, repeat=len(inter)))[1:]
  if len(assignments) > max_assignments:
    assignments = rng.sample(assignments, max_assignments)
  for asg in assignments:
    variant = transform.clone(prog)
    variant['annotations'] = list(variant['annotations']) + [(a, p) for a, p in zip(asg, inter) if a]
    vtext, _ = printer.program_text(variant)
    vrules, vbad = pipeline.parse_program(vtext)
    ctx.count('assignments')
    grounded = {p for a, p in zip(asg, inter) if a == 'Ground'}
    for p in watch:
      b = base[p]
      probe = sqlite_probe.Probe() if grounded else None
      o = vbad if vbad else pipeline.run(vtext, p, rules=vrules, probe=probe)
      ctx.count('comparisons')
      verdict, detail = c07.judge(prog, p, b, o, ev)
      differs = o.kind == 'rows' and b.kind == 'rows' and (o.sql or '') != (b.sql or '')
      if differs:
        ctx.count('sql_differs')
      if o.kind == 'rows' and 'WITH' in (o.sql or ''):
        ctx.count('with_in_sql')
      if probe is not None and o.kind == 'rows':
        created = {t.split('.')[-1] for t in probe.created}
        read = {t.split('.')[-1] for t in probe.read}
        if created & grounded:
          ctx.count('grounded_table_created')
        if read & grounded:
          ctx.count('grounded_table_read')
      nontrivial = differs and len(b.rows or []) >= 2
      ctx.case(stable_hash([text, list(asg), p]), verdict in ('equal', 'equal_via_reference') and nontrivial)
      ctx.count(verdict)
      if verdict in ('equal', 'equal_via_reference', 'both_rejected', 'discarded'):
        if nontrivial and ctx.rng.random() < 0.002:
          ctx.sample({'program': vtext, 'annotations': [[a, q] for a, q in zip(asg, inter) if a], 'predicate': p, 'rows': o.rows[:6]})
        continue
      key = None
      if verdict == 'accepted_vs_rejected':
        rejected = o if o.kind != 'rows' else b
        kk = next((k for m, k in semantic.REJECTION_KINDS if m in (rejected.message or '')), None)
        if kk and rejected.kind == 'diagnostic':
          key = 'C08/elimination-after-injection/%s' % kk
      if key is None and verdict == 'rows_differ' and any(v is None for r in (b.rows or []) + (o.rows or []) for v in r):
        # recorded mechanism: null == null holds only when the comparison is a tautology after injection;
        # guard: with injection off for every single-rule predicate the two plans agree
        pb = semantic.with_noinject_everywhere(prog)
        pv = semantic.with_noinject_everywhere(variant)
        tb, _ = printer.program_text(pb)
        tv, _ = printer.program_text(pv)
        b2, o2 = pipeline.run(tb, p), pipeline.run(tv, p)
        v2, _ = c07.judge(prog, p, b2, o2, ev)
        if v2 in ('equal', 'equal_via_reference'):
          key = 'C08/null-equality-under-injection'
      ctx.violation(key, 'annotations %s change the result of %s: %s' % ([(a, q) for a, q in zip(asg, inter) if a], p, detail),
                    dict(info, program=text, variant=vtext, predicate=p, base_outcome=b.brief(), variant_outcome=o.brief()))


def finalize(agg, tier):
  out = []
  c = agg['counters']
  for k in ('programs', 'assignments', 'comparisons', 'equal', 'sql_differs', 'with_in_sql', 'grounded_table_created',
            'grounded_table_read', 'injections', 'base_matches_reference'):
    if not c.get(k):
      out.append('mandatory counter %s is zero' % k)
  return out


def replay(w):
  c = semantic.Collector()
  pipeline.mods()
  run_case(c, w['case_seed'], w['i'], w['max_k'], w['max_assignments'])
  return c.report()
