"""C17 - grounded predicates are materialised faithfully and re-running is idempotent."""
import hashlib
import os
import random
import shutil
import sqlite3

from vf.checks import semantic
from vf.core import repo
from vf.core.shard import stable_hash
from vf.gen import ir, printer, progen, transform
from vf.mon import pipeline, sqlite_probe
from vf.ref import compare, evaluator

ID = 'C17'
LEVEL = 'exploration'
RULE = ('generated programs with @AttachDatabase("logica_home", <scratch file>) and 1-3 @Ground intermediates (chains of grounded reading '
        'grounded included); histories of 2-6 runs (dependants, the grounded predicates themselves, repeats), every run compiled afresh and '
        'executed on a new connection exactly like `logica.py run` (preamble, defines_and_exports, main statement); after every run the '
        'database file is dumped: grounded tables written by the run must hold the reference multiset, the main statement must have read '
        'them (authorizer probe), tables the run does not depend on must be untouched, a run of P itself must not write table P, a repeated '
        'run must return the same rows and leave the same tables; one evaluation = one run of a history; distinct = hash(program, history '
        'prefix); non-trivial = the run wrote a grounded table with >= 2 rows or is a repeat')
ASSUMPTIONS = ['reference evaluator as in C01/C02 (with the recorded C02 deviations modelled)', 'sqlite3 authorizer reports every table read by the main statement']
MIN_NONTRIVIAL = 40
REPORT_COUNTERS = ['programs', 'runs', 'rows_ok', 'tables_checked', 'tables_ok', 'grounded_read_seen', 'reruns', 'rerun_identical',
                   'self_runs', 'self_run_left_table_alone', 'chains', 'discarded']


def plan(tier, seed):
  return {'nshards': 16, 'timeout_s': 5400 if tier == 'thorough' else 1200,
          'params': {'n_programs': 300 if tier == 'thorough' else 40}}


def features_for(i):
  if i % 2:
    return {'agg': 0.4, 'combine': 0.3, 'neg': 0.3, 'n_der': (3, 5), 'max_facts': 5}
  return {'n_der': (3, 5), 'inj': 0.7, 'func': 0.6}


def deps_of(prog):
  direct = {}
  for r in prog['rules']:
    direct.setdefault(r['pred'], set()).update(ir.called_preds_rule(r))
  closure = {}

  def go(p, seen):
    for q in direct.get(p, ()):
      if q not in seen:
        seen.add(q)
        go(q, seen)
    return seen
  for p in direct:
    closure[p] = go(p, set())
  return direct, closure


def dump_db(path):
  """{table: (columns, sorted rows as repr)} of the database file (empty if it does not exist)."""
  if not os.path.exists(path):
    return {}
  con = sqlite3.connect(path)
  try:
    out = {}
    for (name,) in con.execute("select name from sqlite_master where type='table' order by name").fetchall():
      cur = con.execute('select * from "%s"' % name)
      rows = [list(r) for r in cur.fetchall()]
      out[name] = ([d[0] for d in cur.description], rows)
    return out
  finally:
    con.close()


def table_hash(t):
  cols, rows = t
  return hashlib.sha256(repr((cols, sorted(map(repr, rows)))).encode()).hexdigest()[:16]


def run_shard(ctx):
  pipeline.mods()
  pipeline.enable_library_memo()
  scratch = repo.scratch_dir('c17')
  try:
    for i in range(ctx.params['n_programs']):
      run_case(ctx, ctx.rng.randrange(1 << 48), i, scratch)
  finally:
    shutil.rmtree(scratch, ignore_errors=True)


def run_case(ctx, case_seed, i, scratch):
  rng = random.Random(case_seed)
  prog = progen.generate(rng, features_for(i))
  direct, closure = deps_of(prog)
  derived = [p for p in prog['order'] if prog['preds'][p]['kind'] in ('derived', 'fun')]
  readers = {p for p in derived if any(p in closure.get(q, ()) for q in derived)}
  cands = [p for p in derived if p in readers]
  if not cands:
    ctx.count('no_candidates')
    return
  rng.shuffle(cands)
  grounded = sorted(cands[:rng.choice([1, 1, 2, 2, 3])], key=prog['order'].index)
  db_path = os.path.join(scratch, 'db_%d_%d.sqlite' % (os.getpid(), i))
  for p in (db_path, db_path + '-journal'):
    if os.path.exists(p):
      os.remove(p)
  prog = transform.clone(prog)
  prog['annotations'] = list(prog['annotations']) + [('AttachDatabase', 'logica_home', db_path)] + [('Ground', p) for p in grounded]
  # sometimes a grounded predicate is also ordered and limited: the stored table is its first K rows
  for g in grounded:
    cols = prog['preds'][g]['cols']
    if rng.random() < 0.35 and all(not isinstance(t, tuple) and t != 'bool' for _, t in cols) and not prog['preds'][g].get('made'):
      order = [c for c, _ in cols]
      rng.shuffle(order)
      keys = [c if rng.random() < 0.5 else c + ' desc' for c in order]
      prog['annotations'] += [('OrderBy', g, keys), ('Limit', g, rng.choice([1, 2, 2, 3]))]
      ctx.count('grounded_ordered_limited')
  text, _ = printer.program_text(prog)
  info = {'case_seed': case_seed, 'i': i}
  ctx.journal(dict(info, program=text))
  ctx.count('programs')
  if any(g2 in closure.get(g1, ()) for g1 in grounded for g2 in grounded if g1 != g2):
    ctx.count('chains')
  rules, bad = pipeline.parse_program(text)
  if bad:
    ctx.violation(None, 'program with @Ground rejected at parse: %s' % (bad.message or '')[:200], dict(info, program=text))
    return
  ev = evaluator.Evaluator(prog, switches=semantic.baseline_switches())
  dependants = [p for p in derived if closure.get(p, set()) & set(grounded)]
  history = []
  for _ in range(rng.choice([2, 3, 4, 5, 6])):
    x = rng.random()
    if history and x < 0.3:
      history.append(rng.choice(history))            # repeat
    elif x < 0.5:
      history.append(rng.choice(grounded))           # the grounded predicate itself
    else:
      history.append(rng.choice(dependants or grounded))
  last_result = {}
  last_tables_after = {}
  for step, q in enumerate(history):
    before = dump_db(db_path)
    probe = sqlite_probe.Probe()
    out = pipeline.run_like_logica_py(text, q, rules=rules, probe=probe)
    if out.kind == 'rows':
      ctx.count('script_runner_runs')
      if getattr(out, 'script_output_matches', None) is False:
        ctx.violation(None, 'run %d (%s): what sqlite3_logica.RunSqlScript printed is not the rows of the main statement' % (step, q),
                      dict(info, program=text, history=history, step=step, predicate=q, printed=getattr(out, 'script_output', None), rows=out.rows[:10]))
    after = dump_db(db_path)
    ctx.count('runs')
    wit = dict(info, program=text, history=history, step=step, predicate=q, grounded=grounded)
    if out.kind == 'capped':
      ctx.count('discarded')
      break
    if out.kind == 'diagnostic' and any(m in (out.message or '') for m, _ in semantic.REJECTION_KINDS):
      ctx.count('discarded')          # the order-sensitive elimination findings of C01: not this property's subject
      break
    if out.kind != 'rows':
      ctx.violation(None, 'run %d (%s) failed: %s %s' % (step, q, out.exc_type, (out.message or '')[:300]), dict(wit, observed=out.brief()))
      break
    judged = False
    # (a) rows of the requested predicate
    try:
      res = semantic.check_predicate(prog, text, rules, q, ev, run=lambda *a, **k: out)
      if res.status == 'ok':
        ctx.count('rows_ok')
      elif res.status == 'mismatch':
        ctx.violation(None, 'run %d: rows of %s differ from the reference: %s' % (step, q, res.detail), semantic.witness(prog, text, res, wit))
      judged = res.status != 'discarded'
    except evaluator.Unsupported:
      pass
    # (b) grounded tables this run depends on hold exactly what the predicate denotes
    wrote_big = False
    # a grounded table is needed by this run if q depends on it and the emitted plan mentions it (the compiler
    # legitimately drops conjuncts whose result is unused)
    plan_text = '\n'.join(out.statements or [])
    import re
    needed = [g for g in grounded if g in closure.get(q, ()) and re.search(r'logica_home\.%s\b' % re.escape(g), plan_text)]
    for g in grounded:
      if g in closure.get(q, ()) and g not in needed:
        ctx.count('dependency_optimised_away')
    for g in needed:
      try:
        cols, table = semantic.expected_table(ev, g)
      except (evaluator.Capped, evaluator.Ambiguous, evaluator.Unsupported):
        continue
      ctx.count('tables_checked')
      if g not in after:
        ctx.violation(None, 'run %d of %s: grounded table %s is missing from the database' % (step, q, g), wit)
        continue
      why = compare.compare_tables(table, cols, after[g][1], after[g][0], semantic.col_types(prog, g, cols))
      if why:
        ctx.violation(None, 'run %d of %s: table %s does not hold what %s denotes: %s' % (step, q, g, g, why),
                      dict(wit, table=after[g][1][:20], expected=compare.show_table(table)[:20]))
      else:
        ctx.count('tables_ok')
        if len(after[g][1]) >= 2:
          wrote_big = True
      # (c) a reader must read the table (direct readers only: q or an intermediate of q)
      if any(t.split('.')[-1] == g for t in probe.read):
        ctx.count('grounded_read_seen')
      else:
        ctx.violation(None, 'run %d of %s: no statement read the grounded table %s' % (step, q, g), dict(wit, tables_read=sorted(probe.read)))
    # (d) a run of a grounded predicate itself must not write its own table
    if q in grounded:
      ctx.count('self_runs')
      if before.get(q) is None and after.get(q) is None or (before.get(q) is not None and after.get(q) is not None and table_hash(before[q]) == table_hash(after[q])):
        if not any(t.split('.')[-1] == q for t in (probe.created | probe.dropped | probe.inserted)):
          ctx.count('self_run_left_table_alone')
        else:
          ctx.violation(None, 'run %d: asking for the grounded predicate %s itself wrote its table' % (step, q),
                        dict(wit, created=sorted(probe.created), dropped=sorted(probe.dropped)))
      else:
        ctx.violation(None, 'run %d: asking for the grounded predicate %s itself changed its table' % (step, q), wit)
    # (f) tables this run does not depend on stay untouched
    for g in grounded:
      if g not in needed and g != q:
        hb = table_hash(before[g]) if g in before else None
        ha = table_hash(after[g]) if g in after else None
        if hb != ha:
          ctx.violation(None, 'run %d of %s changed table %s although %s does not depend on it' % (step, q, g, q), wit)
    # (e) repeats are idempotent
    is_repeat = q in last_result
    if is_repeat:
      ctx.count('reruns')
      same_rows = sorted(map(repr, last_result[q])) == sorted(map(repr, out.rows))
      same_tables = all((table_hash(after[g]) if g in after else None) == last_tables_after[q].get(g) for g in needed)
      if same_rows and same_tables:
        ctx.count('rerun_identical')
      else:
        ctx.violation(None, 'run %d repeats %s but %s' % (step, q, 'rows differ' if not same_rows else 'grounded tables differ'),
                      dict(wit, first=last_result[q][:20], second=out.rows[:20]))
    last_result[q] = out.rows
    last_tables_after[q] = {g: (table_hash(after[g]) if g in after else None) for g in grounded}
    ctx.case(stable_hash([text, history[:step + 1]]), judged and (wrote_big or is_repeat))
    if step == len(history) - 1 and ctx.rng.random() < 0.05:
      ctx.sample({'program': text, 'history': history, 'grounded': grounded, 'tables_after': {k: v[1][:5] for k, v in after.items()}})
  for p in (db_path, db_path + '-journal'):
    if os.path.exists(p):
      os.remove(p)


def finalize(agg, tier):
  out = []
  c = agg['counters']
  for k in ('programs', 'runs', 'rows_ok', 'tables_checked', 'tables_ok', 'grounded_read_seen', 'reruns', 'rerun_identical', 'self_runs',
            'self_run_left_table_alone', 'chains', 'script_runner_runs', 'grounded_ordered_limited'):
    if not c.get(k):
      out.append('mandatory counter %s is zero' % k)
  return out


def replay(w):
  c = semantic.Collector()
  pipeline.mods()
  scratch = repo.scratch_dir('c17r')
  try:
    run_case(c, w['case_seed'], w['i'], scratch)
  finally:
    shutil.rmtree(scratch, ignore_errors=True)
  return c.report()
