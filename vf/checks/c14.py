"""C14 - workflow execution: inputs first, exact repetition counts, termination, several predicates at once.

Workload A drives the real Concertina scheduler with generated configurations and a recording
sql_runner (the boundary named in the property); the recorded start trace is checked offline against
vf/ref/sched_spec.py.  Stop signals are injected by the runner at chosen (action, occurrence) points.
Workload B/C (compiled plans on SQLite, subsets of predicates) live in c14_plans.py.
"""
import copy
import itertools
import json
import os
import shutil

from vf.core import repo
from vf.core.shard import stable_hash
from vf.gen import dag
from vf.ref import sched_spec

ID = 'C14'
LEVEL = 'exploration'
RULE = ('A: generated Concertina configurations (DAGs of <=14 actions, 0-2 iteration groups in two-halves or diamond '
        'mode, data nodes, names exercising the lexicographic tie-break) run on the real scheduler with a recording '
        'sql_runner; stop signals injected at a chosen (action, occurrence); exhaustive enumeration of all DAGs on '
        '<=4 (quick) / <=5 (thorough) actions under all name permutations and of all wirings of a 2-member group among <=3 '
        'actions with every injection point; B: compiled plans (grounded intermediates, iterative recursion) executed on '
        'SQLite through ExecuteLogicaProgram with observed table reads; C: all subsets of <=4 predicates requested at once '
        'vs alone. one evaluation = one run whose start trace was checked against the trace specification. distinct = hash of '
        '(config, iterations, injection) or (program, request set); non-trivial = iteration group with an external input, or a '
        'stop injection, or >=2 requested predicates sharing an intermediate')
ASSUMPTIONS = ['configurations are restricted to the shapes the compiler emits (lower-half members read upper members and '
               'external inputs that the upper half also reads; diamond members read earlier members only)',
               'stop-signal tolerance: after the signal file is non-empty every member may start at most once more (DESIGN 4.21 rule 11)',
               'a reader outside an iteration must start after the last start of the iterated input']
MIN_NONTRIVIAL = 50
REPORT_COUNTERS = ['A_runs', 'A_starts', 'A_distinct_traces', 'A_signal_injected', 'A_signal_stopped_early',
                   'A_exhaustive_dags', 'A_exhaustive_group_cfgs', 'contract_evaluations', 'B_plans', 'B_statements', 'C_subsets']


class Runaway(Exception):
  pass


def plan(tier, seed):
  return {'nshards': 16, 'timeout_s': 3600 if tier == 'thorough' else 900}


def install_contracts(cl, counter):
  """Post-conditions on Concertina.RunOneAction (invariant-at-a-hook); returns the violation list."""
  broken = []

  def queue_complete_partition(self):
    counter[0] += 1
    try:
      q = list(self.actions_to_run)
      ok = (set(q) | self.complete_actions == self.all_actions and not (set(q) & self.complete_actions)
            and not self.running_actions and len(set(q)) == len(q))
    except AttributeError:
      counter[1] += 1
      return True
    if not ok:
      broken.append('queue/complete/running are not a partition of the actions: queue=%s complete=%s running=%s' % (
          q, sorted(self.complete_actions), sorted(self.running_actions)))
    return True

  def repetition_counters_bounded(self):
    counter[0] += 1
    try:
      bad = {a: n for a, n in self.action_iterations_complete.items()
             if a in self.action_iteration and n > self.iteration_repetitions[self.action_iteration[a]]}
    except AttributeError:
      counter[1] += 1
      return True
    if bad:
      broken.append('repetition counter above the declared repetitions: %s' % bad)
    return True

  try:
    import icontract
    wrapped = icontract.ensure(queue_complete_partition, error=AssertionError)(
        icontract.ensure(repetition_counters_bounded, error=AssertionError)(cl.Concertina.RunOneAction))
  except ImportError:
    orig = cl.Concertina.RunOneAction

    def wrapped(self):
      r = orig(self)
      queue_complete_partition(self)
      repetition_counters_bounded(self)
      return r
  cl.Concertina.RunOneAction = wrapped
  return broken


def run_config(cl, config, iterations, inject, scratch, contract_log):
  """Runs one configuration on the real scheduler. inject: {iteration: (action, occurrence)}.
  Returns dict(trace, signals, error)."""
  config = copy.deepcopy(config)
  iterations = copy.deepcopy(iterations)
  for it, spec in iterations.items():
    if spec.get('stop_signal'):
      path = os.path.join(scratch, spec['stop_signal'])
      if os.path.exists(path):
        os.remove(path)
      spec['stop_signal'] = path
  bound = sched_spec.max_starts(config, iterations)
  trace = []
  signals = {}
  seen = {}
  del contract_log[:]

  def sql_runner(sql, engine, is_final):
    name = sql[4:-1]
    trace.append(name)
    if len(trace) > bound + 5:
      raise Runaway()
    seen[name] = seen.get(name, 0) + 1
    for it, (act, occ) in inject.items():
      if act == name and seen[name] == occ and it not in signals and iterations[it].get('stop_signal'):
        with open(iterations[it]['stop_signal'], 'w') as f:
          f.write('stop')
        signals[it] = len(trace) - 1
    return name

  error = None
  try:
    engine = cl.ConcertinaQueryEngine(final_predicates=set(), sql_runner=sql_runner, print_running_predicate=False)
    c = cl.Concertina(config, engine, display_mode='silent', iterations=iterations)
    c.Run()
  except Runaway:
    error = 'runaway: more statements started than the declared repetitions allow'
  except Exception as e:
    error = 'scheduler raised %s: %s' % (type(e).__name__, str(e)[:300])
  return {'trace': trace, 'signals': signals, 'error': error, 'contracts': list(contract_log)}


def judge(config, iterations, res):
  fails = []
  if res['error']:
    fails.append((res['error'], {}))
  if not res['error'] or res['error'].startswith('runaway'):
    fails.extend(sched_spec.check_trace(config, iterations, res['trace'], res['signals']))
  for c in res['contracts'][:3]:
    fails.append(('scheduler state invariant broken after RunOneAction: ' + c, {}))
  return fails


def one_case(ctx, cl, config, iterations, inject, scratch, contract_log, klass, traces_seen, sample_every=997):
  case = {'config': [{'name': a['name'], 'requires': a['requires'], 'launcher': a['action']['launcher']} for a in config],
          'iterations': iterations, 'inject': {k: list(v) for k, v in inject.items()}}
  ctx.journal(case)
  res = run_config(cl, config, iterations, inject, scratch, contract_log)
  fails = judge(config, iterations, res)
  has_ext_group = any(
      any(r not in spec['predicates'] for a in config if a['name'] in spec['predicates'] for r in a['requires'])
      for spec in iterations.values())
  nontrivial = has_ext_group or bool(res['signals']) or (not iterations and sum(len(a['requires']) for a in config) >= 2)
  h = stable_hash(case)
  ctx.case(h, nontrivial)
  ctx.count('A_runs')
  ctx.count('A_' + klass)
  ctx.count('A_starts', len(res['trace']))
  th = stable_hash(res['trace'])
  if th not in traces_seen:
    traces_seen.add(th)
    ctx.count('A_distinct_traces')
  if res['signals']:
    ctx.count('A_signal_injected')
    for it in res['signals']:
      n = sum(1 for x in res['trace'] if x in iterations[it]['predicates'])
      if n < len(iterations[it]['predicates']) * iterations[it]['repetitions']:
        ctx.count('A_signal_stopped_early')
  if ctx.counters.get('A_runs', 0) % sample_every == 1:
    ctx.sample(dict(case, trace=res['trace'], signals=res['signals']))
  for what, details in fails:
    ctx.violation(None, what, dict(case, kind='A', trace=res['trace'], signals=res['signals'], details=details))


def run_shard(ctx):
  from common import concertina_lib as cl
  counter = [0, 0]
  contract_log = install_contracts(cl, counter)
  scratch = repo.scratch_dir('c14')
  traces_seen = set()
  try:
    thorough = ctx.tier == 'thorough'
    # A1: random configurations with random injections
    n_random = 6000 if thorough else 900
    for _ in range(n_random):
      config, iterations = dag.random_config(ctx.rng, max_units=9 if thorough else 7)
      inject = {}
      for it, spec in iterations.items():
        if spec.get('stop_signal') and ctx.rng.random() < 0.75:
          if ctx.rng.random() < 0.85:
            act = ctx.rng.choice(spec['predicates'])
            occ = ctx.rng.randint(1, spec['repetitions'])
          else:  # raised by some other statement of the workflow
            cands = [a['name'] for a in config if a['action']['launcher'] == 'query']
            act, occ = ctx.rng.choice(cands), 1
          inject[it] = (act, occ)
      one_case(ctx, cl, config, iterations, inject, scratch, contract_log, 'random', traces_seen)

    # A2: every DAG on <= n actions under every assignment of names (lexicographic tie-break)
    max_n = 5 if thorough else 4
    base_names = ['B', 'A_ifr1', 'a', 'C', 'A']
    k = 0
    for n in range(1, max_n + 1):
      for perm in itertools.permutations(base_names[:n]):
        for config in dag.all_small_dags(n, list(perm)):
          k += 1
          if k % ctx.nshards != ctx.shard:
            continue
          one_case(ctx, cl, config, {}, {}, scratch, contract_log, 'exhaustive_dags', traces_seen, sample_every=5003)

    # A3: a 2-member group among <= 3 actions, all legal wirings x all injection points
    k = 0
    for n in range(0, (3 if thorough else 2) + 1):
      for names in ([['B', 'a', 'Z'][:n], ['Z', 'V', 'A'][:n]] if n else [[]]):
        for config, iterations in dag.small_group_configs(n, names):
          injections = [{}] + [{'it': (act, occ)} for act in ('U_ifr1', 'U_ifr2') for occ in (1, 2, 3)]
          injections += [{'it': (a, 1)} for a in names]
          for inject in injections:
            k += 1
            if k % ctx.nshards != ctx.shard:
              continue
            one_case(ctx, cl, config, iterations, inject, scratch, contract_log, 'exhaustive_group_cfgs', traces_seen, sample_every=4001)
    ctx.count('contract_evaluations', counter[0])
    ctx.count('contract_not_evaluable', counter[1])
    # B, C: compiled plans
    try:
      from vf.checks import c14_plans
    except ImportError:
      c14_plans = None
    if c14_plans is not None:
      c14_plans.run(ctx)
  finally:
    shutil.rmtree(scratch, ignore_errors=True)


def finalize(agg, tier):
  out = []
  c = agg['counters']
  for k in ('A_runs', 'A_signal_injected', 'A_signal_stopped_early', 'A_exhaustive_dags', 'A_exhaustive_group_cfgs', 'contract_evaluations'):
    if not c.get(k):
      out.append('mandatory counter %s is zero' % k)
  return out


def replay(w):
  from common import concertina_lib as cl
  if w.get('kind') != 'A':
    from vf.checks import c14_plans
    return c14_plans.replay(w)
  counter = [0, 0]
  contract_log = install_contracts(cl, counter)
  scratch = repo.scratch_dir('c14r')
  try:
    config = [dag.query_action(a['name'], a['requires']) if a['launcher'] == 'query' else dag.data_action(a['name'])
              for a in w['config']]
    inject = {k: tuple(v) for k, v in w['inject'].items()}
    res = run_config(cl, config, w['iterations'], inject, scratch, contract_log)
    fails = judge(config, w['iterations'], res)
  finally:
    shutil.rmtree(scratch, ignore_errors=True)
  text = 'config=%s\niterations=%s\ninject=%s\ntrace=%s\nsignals=%s\n' % (
      json.dumps(w['config']), json.dumps(w['iterations']), inject, res['trace'], res['signals'])
  text += '\n'.join('FAIL %s %s' % f for f in fails)
  return bool(fails), text
