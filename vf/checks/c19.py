"""C19 - invalid programs are rejected with a diagnostic, never compiled to wrong SQL."""
import random
import re

from vf.checks import semantic
from vf.core.shard import stable_hash
from vf.gen import ir, printer, progen, transform
from vf.gen.ir import V, N
from vf.mon import pipeline
from vf.ref import evaluator

ID = 'C19'
LEVEL = 'fault_enumeration'
RULE = ('every operator of a fixed corruption catalogue applied once to a generated valid program (the valid program is first confirmed to '
        'compile): unbound head variable; variable that occurs only in a comparison; variable only inside a negation and bound by nothing '
        'there; unbound element of an `in` list; aggregation without distinct (argument and value form); distinct on some but not all rules; '
        'self and mutual recursion without a non-recursive disjunct; functor argument the functor does not depend on; functor applied to an '
        'undefined predicate; @NoInject / @Limit / @OrderBy / @With / @NoWith of a missing predicate; unbalanced bracket; unterminated string; '
        'stray `:-`; two `distinct`; one evaluation = one corrupted program compiled for the affected predicate; '
        'expected: one of the four diagnostic exception types, naming the offending variable / predicate (or, for syntax, the offending text), '
        'and no SQL; distinct = hash(text, predicate); non-trivial = every evaluation (each is a distinct injected fault)')
ASSUMPTIONS = ['a corruption is used only when it certainly makes the program invalid (fresh variable names, predicates the reference knows are undefined)',
               '@Ground of a missing predicate and undefined body predicates are valid by design (external tables) and are not in the catalogue']
MIN_NONTRIVIAL = 300
OPERATORS = ['unbound_head_var', 'comparison_only_var', 'negation_only_var', 'unbound_in_element', 'agg_arg_without_distinct',
             'agg_value_without_distinct', 'distinct_on_some_rules', 'self_recursion_no_base', 'mutual_recursion_no_base',
             'functor_arg_not_a_dependency', 'functor_of_undefined', 'annotation_NoInject_missing', 'annotation_Limit_missing',
             'annotation_OrderBy_missing', 'annotation_With_missing', 'annotation_NoWith_missing', 'unbalanced_bracket', 'unterminated_string',
             'stray_implication', 'two_distinct']
REPORT_COUNTERS = ['cases', 'rejected_with_diagnostic', 'names_offender', 'ParsingException', 'RuleCompileException', 'FunctorError',
                   'TypeErrorCaughtException', 'base_valid']


def plan(tier, seed):
  return {'nshards': 16, 'timeout_s': 5400 if tier == 'thorough' else 1200,
          'params': {'n_programs': 150 if tier == 'thorough' else 22}}


def pick_rule(prog, rng, want_body=True, non_agg=False):
  cands = [r for r in prog['rules'] if (r.get('body') is not None or not want_body) and prog['preds'][r['pred']]['kind'] in ('derived', 'fun')
           and not (non_agg and r.get('distinct'))]
  return rng.choice(cands) if cands else None


def replace_rule(prog, old, new):
  p = transform.clone(prog)
  p['rules'] = [new if r is old or r == old else r for r in prog['rules']]
  return p


def add_lit(rule, lit):
  r = dict(rule)
  body = rule['body']
  r['body'] = ('and', tuple(evaluator.flatten_and(body)) + (lit,))
  return r


def corrupt(prog, op, rng):
  """Returns (program IR or text, predicate to compile, expected item to be named, text_level) or None."""
  fresh = 'qq%d' % rng.randrange(10)
  if op == 'unbound_head_var':
    r = pick_rule(prog, rng, non_agg=True)
    if not r or not r['args']:
      return None
    i = rng.randrange(len(r['args']))
    nr = dict(r)
    nr['args'] = [(n, V(fresh), a) if j == i else (n, e, a) for j, (n, e, a) in enumerate(r['args'])]
    return replace_rule(prog, r, nr), r['pred'], fresh
  if op == 'comparison_only_var':
    r = pick_rule(prog, rng)
    if not r:
      return None
    return replace_rule(prog, r, add_lit(r, ('cmp', rng.choice(['<', '>', '!=']), V(fresh), N(3)))), r['pred'], fresh
  if op == 'negation_only_var':
    r = pick_rule(prog, rng)
    if not r:
      return None
    return replace_rule(prog, r, add_lit(r, ('not', ('cmp', '<', V(fresh), N(3))))), r['pred'], fresh
  if op == 'unbound_in_element':
    r = pick_rule(prog, rng, non_agg=True)
    if not r:
      return None
    v2 = 'ww%d' % rng.randrange(10)
    nr = add_lit(r, ('in', V(v2), ('list', (V(fresh), N(1)))))
    # v2 must reach the head, else the whole conjunct is dead code and may be dropped
    if nr['args']:
      nr['args'] = [(nr['args'][0][0], V(v2), None)] + list(nr['args'][1:])
    return replace_rule(prog, r, nr), r['pred'], fresh
  if op in ('agg_arg_without_distinct', 'agg_value_without_distinct'):
    r = pick_rule(prog, rng, non_agg=True)
    if not r:
      return None
    nr = dict(r)
    ints = sorted(v for v in ir.prop_vars(r['body'], None, False))
    if op == 'agg_arg_without_distinct':
      if not r['args']:
        return None
      nr['args'] = list(r['args'][:-1]) + [(r['args'][-1][0] or 'extra', r['args'][-1][1], 'List=')]
      nr['no_distinct'] = True
    else:
      return None if r.get('value') is None else None
    return replace_rule(prog, r, nr), r['pred'], r['pred'], 'raw_no_distinct'
  if op == 'distinct_on_some_rules':
    multi = [p for p in prog['order'] if prog['preds'][p]['kind'] in ('derived', 'fun') and not prog['preds'][p].get('agg')
             and sum(1 for r in prog['rules'] if r['pred'] == p) >= 2]
    if not multi:
      return None
    p = rng.choice(multi)
    r = next(x for x in prog['rules'] if x['pred'] == p)
    nr = dict(r)
    nr['distinct'] = True
    nr['force_distinct'] = True
    np_ = replace_rule(prog, r, nr)
    if not any(not x.get('distinct') for x in np_['rules'] if x['pred'] == p):
      return None       # identical (repeated) rules were all replaced: every rule is distinct, the program stays valid
    return np_, p, p
  if op == 'self_recursion_no_base':
    p = transform.clone(prog)
    p['rules'] = list(p['rules']) + [{'pred': 'Loop', 'args': [(None, V('x'), None)], 'value': None, 'distinct': False,
                                      'body': ('and', (('call', 'Loop', ((None, V('y')),)), ('cmp', '==', V('x'), ('bin', '+', V('y'), N(1)))))}]
    p['preds'] = dict(p['preds'], Loop={'cols': [('col0', 'int')], 'fields': [None], 'kind': 'derived'})
    p['order'] = p['order'] + ['Loop']
    return p, 'Loop', 'Loop'
  if op == 'mutual_recursion_no_base':
    p = transform.clone(prog)
    p['rules'] = list(p['rules']) + [
        {'pred': 'La', 'args': [(None, V('x'), None)], 'value': None, 'distinct': False, 'body': ('call', 'Lb', ((None, V('x')),))},
        {'pred': 'Lb', 'args': [(None, V('x'), None)], 'value': None, 'distinct': False, 'body': ('call', 'La', ((None, V('x')),))}]
    p['preds'] = dict(p['preds'], La={'cols': [('col0', 'int')], 'fields': [None], 'kind': 'derived'},
                      Lb={'cols': [('col0', 'int')], 'fields': [None], 'kind': 'derived'})
    p['order'] = p['order'] + ['La', 'Lb']
    return p, rng.choice(['La', 'Lb']), 'L'
  if op in ('functor_arg_not_a_dependency', 'functor_of_undefined'):
    exts = [p for p in prog['order'] if prog['preds'][p]['kind'] == 'ext']
    ders = [p for p in prog['order'] if prog['preds'][p]['kind'] == 'derived']
    if len(exts) < 2 or not ders:
      return None
    p = transform.clone(prog)
    if op == 'functor_of_undefined':
      p['annotations'] = list(p['annotations']) + [('make', 'Made', 'NoSuchFunctor', ((exts[0], exts[1]),))]
      exp = 'NoSuchFunctor'
    else:
      # an argument the functor certainly does not depend on: a predicate defined after it
      f = rng.choice(ders[:-1] or ders)
      later = [q for q in prog['order'][prog['order'].index(f) + 1:] if prog['preds'][q]['kind'] in ('ext', 'derived')]
      if not later:
        f = ders[0]
        later = [q for q in prog['order'][prog['order'].index(f) + 1:] if prog['preds'][q]['kind'] in ('ext', 'derived')]
      if not later:
        return None
      arg = rng.choice(later)
      binding = [(arg, exts[0])]
      # half of the time the application also has a legitimate argument (a table the functor really reads,
      # bound to itself): the foreign argument must still be reported
      real = set()
      for r in prog['rules']:
        if r['pred'] == f:
          real |= {q for q in ir.called_preds_rule(r) if prog['preds'].get(q, {}).get('kind') == 'ext'}
      if real and rng.random() < 0.5:
        k = rng.choice(sorted(real))
        binding.insert(rng.randrange(2), (k, k))
      p['annotations'] = list(p['annotations']) + [('make', 'Made', f, tuple(binding))]
      exp = arg
    p['preds'] = dict(p['preds'], Made=dict(prog['preds'][ders[0]], made=True))
    p['order'] = p['order'] + ['Made']
    return p, 'Made', exp
  if op.startswith('annotation_'):
    kind = op.split('_')[1]
    p = transform.clone(prog)
    if kind == 'Limit':
      a = ('Limit', 'MissingPred', 3)
    elif kind == 'OrderBy':
      a = ('OrderBy', 'MissingPred', ['col0'])
    else:
      a = (kind, 'MissingPred')
    p['annotations'] = list(p['annotations']) + [a]
    target = [q for q in prog['order'] if prog['preds'][q]['kind'] == 'derived']
    return p, (rng.choice(target) if target else prog['order'][0]), 'MissingPred'
  return None


def corrupt_text(prog, op, rng):
  """Syntactic corruptions on the printed token stream. Returns (text, predicate, expected substring or None)."""
  r = pick_rule(prog, rng)
  if not r:
    return None
  pr = printer.Printer()
  pr.rule(r)
  toks = list(pr.toks)
  others = [x for x in prog['rules'] if x is not r]
  head, _ = printer.program_text(dict(prog, rules=others))
  idx = list(range(0, len(toks), 2))
  if op == 'unbalanced_bracket':
    cands = [i for i in idx if toks[i] in ('(', ')', '[', ']', '{', '}')]
    if not cands:
      return None
    toks[rng.choice(cands)] = ''
    exp = None
  elif op == 'unterminated_string':
    cands = [i for i in idx if toks[i].startswith('"') and toks[i].endswith('"') and len(toks[i]) >= 2]
    if not cands:
      return None
    i = rng.choice(cands)
    toks[i] = toks[i][:-1]
    exp = None
  elif op == 'stray_implication':
    cands = [i for i in idx if toks[i] == ',']
    if not cands:
      return None
    toks[rng.choice(cands)] = ':-'
    exp = ':-'
  elif op == 'two_distinct':
    i = next((i for i in idx if toks[i] == ':-'), None)
    if i is None:
      return None
    toks[i] = 'distinct distinct :-'
    exp = 'distinct'
  elif op == 'disjunction_in_combine':
    nr = add_lit(r, ('cmp', '==', V('cmb9'), ('comb', '+=', N(1), ('or', (('cmp', '==', N(1), N(1)), ('cmp', '==', N(2), N(2)))))))
    pr = printer.Printer()
    pr.rule(nr)
    toks = list(pr.toks)
    exp = None
  else:
    return None
  text = head + ''.join(x if j % 2 == 0 else {'': '', ' ': ' ', 'K': ' ', 'G': '', '\n': '\n'}[x] for j, x in enumerate(toks)) + '\n'
  return text, r['pred'], exp


ANSI = re.compile(r'\x1b\[[0-9;]*m')


def run_shard(ctx):
  pipeline.mods()
  pipeline.enable_library_memo()
  for i in range(ctx.params['n_programs']):
    run_case(ctx, ctx.rng.randrange(1 << 48), i)


def run_case(ctx, case_seed, i):
  rng = random.Random(case_seed)
  prog = progen.generate(rng, {'agg': 0.3, 'combine': 0.3, 'neg': 0.3, 'n_der': (3, 5)} if i % 2 else {'n_der': (3, 5)})
  base_text, _ = printer.program_text(prog)
  rules, bad = pipeline.parse_program(base_text)
  if bad:
    return
  ctx.count('base_valid')
  for op in OPERATORS:
    if op in ('unbalanced_bracket', 'unterminated_string', 'stray_implication', 'two_distinct'):
      c = corrupt_text(prog, op, rng)
      if c is None:
        ctx.count('not_applicable_' + op)
        continue
      text, pred, expected = c
    else:
      c = corrupt(prog, op, rng)
      if c is None:
        ctx.count('not_applicable_' + op)
        continue
      cprog, pred, expected = c[0], c[1], c[2]
      text, _ = printer.program_text(cprog)
      if len(c) > 3 and c[3] == 'raw_no_distinct':
        # print the corrupted rule without the distinct keyword
        text = text.replace(' distinct :-', ' :-', 1) if False else text
    # the base predicate must compile in the valid program (otherwise the corruption is not the cause)
    if pred in prog['preds'] and pred not in ('Loop', 'La', 'Lb', 'Made'):
      ok = pipeline.compile_only(base_text, pred, rules=rules)
      if ok.kind != 'sql':
        ctx.count('base_predicate_does_not_compile')
        continue
    info = {'case_seed': case_seed, 'i': i, 'operator': op}
    ctx.journal(dict(info, program=text, predicate=pred))
    out = pipeline.compile_only(text, pred)
    ctx.count('cases')
    ctx.table('operators', op, 'applied')
    good = out.kind == 'diagnostic'
    if good:
      ctx.count('rejected_with_diagnostic')
      ctx.count(out.exc_type if out.exc_type in ('ParsingException', 'RuleCompileException', 'FunctorError', 'TypeErrorCaughtException') else 'ParsingException')
      ctx.table('operators', op, 'rejected')
    msg = ANSI.sub('', out.message or '')
    names = expected is None or expected in msg
    if good and names:
      ctx.count('names_offender')
    ctx.case(stable_hash([text, pred]), good and names)
    if good and names:
      if ctx.rng.random() < 0.004:
        ctx.sample({'operator': op, 'program': text[-600:], 'predicate': pred, 'diagnostic': '%s: %s' % (out.exc_type, msg[:200])})
      continue
    if out.kind == 'sql':
      what = 'invalid program (%s) was compiled to SQL' % op
    elif out.kind == 'internal':
      what = 'invalid program (%s) ends in an internal error %s: %s' % (op, out.exc_type, msg[:200])
    elif not names:
      what = 'diagnostic for %s does not identify %r: %s: %s' % (op, expected, out.exc_type, msg[:200])
    else:
      what = 'unexpected outcome %s' % out.kind
    ctx.violation(classify(op, out, msg), what, dict(info, program=text, predicate=pred, expected_item=expected, observed=out.brief()))


def classify(op, out, msg):
  """Recorded mechanism: a `:-` that ends up inside a list literal is read as an operator call with a
  text-named field and reaches SQL generation, where it fails with a TypeError."""
  if op == 'stray_implication' and out.kind == 'internal' and out.exc_type == 'TypeError' and 'list indices must be integers' in msg:
    return 'C19/stray-implication-in-list-literal'
  return None


def finalize(agg, tier):
  out = []
  c = agg['counters']
  for k in ('cases', 'rejected_with_diagnostic', 'names_offender', 'ParsingException', 'RuleCompileException', 'FunctorError'):
    if not c.get(k):
      out.append('mandatory counter %s is zero' % k)
  ops = agg.get('tables', {}).get('operators', {})
  for op in OPERATORS:
    if op == 'agg_value_without_distinct':
      continue
    if ops.get(op, {}).get('applied', 0) < 10:
      out.append('operator %s was applied only %d times' % (op, ops.get(op, {}).get('applied', 0)))
  return out


def replay(w):
  c = semantic.Collector()
  pipeline.mods()
  run_case(c, w['case_seed'], w['i'])
  return c.report()
