"""C15 - layout, comments and string contents never change what is parsed; spans are literal."""
import os
import random

from vf.core import repo
from vf.core.shard import stable_hash
from vf.gen import layout, printer, progen, syntaxgen
from vf.mon import pipeline, treecmp
from vf.native import build
from vf.checks import c06

ID = 'C15'
LEVEL = 'exploration'
RULE = ('base programs from the grammar-directed generator and the semantic generator (string literals full of separators, brackets, comment '
        'markers and keywords) printed canonically; variants with noise inserted at token boundaries only: spaces, tabs, newlines, `# ...` and '
        '`/* ... */` comments whose bodies contain ; ( " \' :- |, a trailing `;`, and the tight direction (optional spaces removed); noise next '
        'to keyword operators (in, is, is not, combine, if/then/else, else if, as, distinct) is a class of its own; each variant is parsed by '
        'both parsers and its rule tree (span-carrying keys dropped) must equal the base tree; every heritage-aware string h in every parsed '
        'tree must satisfy h.heritage[h.start:h.stop] == str(h); one evaluation = one (base, variant, parser); distinct = hash(variant text, '
        'parser); non-trivial = the variant differs from the base in >= 3 places and contains a comment or a special string')
ASSUMPTIONS = ['token boundaries are those of the printer / grammar generator; a predicate name and its opening bracket, a field and its colon are glued',
               'the statement a span belongs to is full_text of the enclosing rule']
MIN_NONTRIVIAL = 200
REPORT_COUNTERS = ['bases', 'variants', 'equal_PY', 'equal_CPP', 'spans_checked_PY', 'spans_checked_CPP', 'span_violations', 'with_comments',
                   'trailing_semicolon', 'keyword_noise_variants', 'special_strings', 'base_rejected']


def plan(tier, seed):
  flavour = 'asan' if tier == 'thorough' else 'prod'
  return {'nshards': 16, 'timeout_s': 7200 if tier == 'thorough' else 1200,
          'params': {'n_bases': 12 if tier == 'thorough' else 70, 'n_variants': 6 if tier == 'thorough' else 5, 'flavour': flavour},
          'env': build.shard_env(flavour)}


def prepare(tier, seed, out_dir):
  build.ensure('asan' if tier == 'thorough' else 'prod')
  return None


def run_shard(ctx):
  pipeline.mods()
  build.install(build.ensure(ctx.params['flavour']))
  for i in range(ctx.params['n_bases']):
    run_case(ctx, ctx.rng.randrange(1 << 48), i, ctx.params['n_variants'])


def base_tokens(rng, i):
  if i % 3 == 2:
    prog = progen.generate(rng, {'agg': 0.4, 'combine': 0.4, 'neg': 0.4, 'argminmax': 0.3})
    # special strings inside facts
    p = printer.Printer()
    p.program(prog)
    return p.toks
  toks, _ = syntaxgen.generate(rng, max_depth=rng.choice([2, 3, 3]))
  return toks


def run_case(ctx, case_seed, i, n_variants):
  rng = random.Random(case_seed)
  toks = base_tokens(rng, i)
  base_text = syntaxgen.render(toks)
  info = {'case_seed': case_seed, 'i': i, 'n_variants': n_variants}
  ctx.journal(dict(info, base=base_text))
  base = {}
  for mode in ('PY', 'CPP'):
    k, rules, bad = c06.parse_one(base_text, mode)
    base[mode] = (k, rules)
  if base['PY'][0] != 'ok' or base['CPP'][0] != 'ok':
    ctx.count('base_rejected')
    return
  ctx.count('bases')
  special = any(s in base_text for s in ('"in"', '"a;b"', '"#no"', '"(|"', '":- "', '"distinct"', '"combine "', '"/* */"', '"}"', '"if "'))
  if special:
    ctx.count('special_strings')
  # spans of the base
  for mode in ('PY', 'CPP'):
    check_spans(ctx, mode, base[mode][1], base_text, info, 'base')
  for v in range(n_variants):
    kind = ['noise', 'noise', 'comments', 'keyword', 'noise', 'comments', 'noise', 'keyword', 'noise', 'comments'][v % 10]
    ts = rng.random() < 0.3 and kind == 'noise'
    if kind == 'noise':
      items = layout.plan_variant(toks, rng, density=rng.choice([0.15, 0.4, 0.8]))
    elif kind == 'comments':
      items = layout.plan_variant(toks, rng, density=0.4, kinds=('hash', 'block', 'block', 'ws'))
    else:
      items = layout.plan_variant(toks, rng, density=0.5, keyword=True)
      ctx.count('keyword_noise_variants')
    text = layout.render_with(toks, items, ts)
    if text == base_text:
      continue
    ctx.count('variants')
    has_comment = any(e[2] in ('hash', 'block') for e in items)
    if has_comment:
      ctx.count('with_comments')
    if ts:
      ctx.count('trailing_semicolon')
    for mode in ('PY', 'CPP'):
      base_plain = treecmp.plain(base[mode][1], drop_heritage=True)

      def outcome(t):
        k, rules, bad = c06.parse_one(t, mode)
        if k == 'ok':
          d = treecmp.first_difference(base_plain, treecmp.plain(rules, drop_heritage=True))
          return d, rules
        return '%s: %s %s' % (k, bad.exc_type, (bad.message or '')[:160]), None
      d, rules = outcome(text)
      nontrivial = len(items) >= 3 and (has_comment or special)
      ctx.case(stable_hash([text, mode]), d is None and nontrivial)
      if d is None:
        ctx.count('equal_' + mode)
        check_spans(ctx, mode, rules, text, info, kind)
        if nontrivial and ctx.rng.random() < 0.001:
          ctx.sample({'base': base_text[:500], 'variant': text[:700], 'parser': mode, 'noise_items': len(items)})
        continue
      small = layout.minimize(toks, items, lambda t: outcome(t)[0] is not None, ts)
      d_small = outcome(layout.render_with(toks, small, ts))[0] or d
      key = classify(kind, small, mode, d_small)
      ctx.violation(key, '%s variant changes what the %s parser reads: %s; minimal noise: %s' % (
          kind, mode, d, [(repr(it[1]), it[3], it[4]) for it in small][:4]),
          dict(info, base=base_text, variant=layout.render_with(toks, small, ts), variant_kind=kind, parser=mode,
               noise=[[it[1], it[2], it[3], it[4]] for it in small][:10]))
  string_content_variants(ctx, toks, rng, info, n_sites=(3 if ctx.tier == "thorough" else 1), n_contents=(12 if ctx.tier == "thorough" else 5))


HOSTILE_CONTENTS = [';', 'a;b', ')', '(', '[', '}', '{', ':-', ' :- ', '#', '# x', '/*', '*/', '/* c */', ' in ', 'distinct', 'combine ', 'if ',
                    ' then ', ' else ', '\\', 'C:\\data\\', '\\(', '\\[x', 'a\\b', '\\\\', '\\)', '~', '|', '||', ',', ', b', '..r', '=>',
                    "'", "it's", '->', '?', '`', '%s', '==', ' is null', 'import a.B;', '@Ground(P);', ':=', 'x']


def string_content_variants(ctx, toks, rng, info, n_sites=2, n_contents=6):
  """The contents of a double-quoted literal are data: replacing them by separators, brackets, comment markers,
  keywords or backslashes must change nothing in the parsed program but that literal's value."""
  sites = [i for i in range(0, len(toks), 2) if len(toks[i]) >= 2 and toks[i][0] == '"' and toks[i][-1] == '"' and not toks[i].startswith('"""')]
  rng.shuffle(sites)
  marker = 'zq9unique'
  for i in sites[:n_sites]:
    t0 = list(toks)
    t0[i] = '"%s"' % marker
    ref_text = syntaxgen.render(t0)
    ref = {}
    for mode in ('PY', 'CPP'):
      k, rules, bad = c06.parse_one(ref_text, mode)
      ref[mode] = treecmp.plain(rules, drop_heritage=True) if k == 'ok' else None
    if ref['PY'] is None or ref['CPP'] is None:
      continue
    for content in rng.sample(HOSTILE_CONTENTS, n_contents):
      t1 = list(toks)
      t1[i] = '"%s"' % content
      text = syntaxgen.render(t1)
      ctx.count('string_content_variants')
      if '\\' in content:
        ctx.count('string_content_with_backslash')
      for mode in ('PY', 'CPP'):
        k, rules, bad = c06.parse_one(text, mode)
        want = replace_string(ref[mode], marker, content)
        if k == 'ok':
          d = treecmp.first_difference(want, treecmp.plain(rules, drop_heritage=True))
        else:
          d = '%s: %s %s' % (k, bad.exc_type, (bad.message or '')[:160])
        ctx.case(stable_hash([text, mode, 'content']), d is None)
        if d is None:
          ctx.count('string_content_equal_' + mode)
          continue
        ctx.violation(None, 'the contents %r of a double-quoted literal change what the %s parser reads: %s' % (content, mode, d),
                      dict(info, base=ref_text, variant=text, variant_kind='string_content', content=content, parser=mode, token_index=i))


def replace_string(tree, old, new):
  if isinstance(tree, dict):
    return {k: replace_string(v, old, new) for k, v in tree.items()}
  if isinstance(tree, list):
    return [replace_string(v, old, new) for v in tree]
  if isinstance(tree, str) and old in tree:
    return tree.replace(old, new)      # also inside names derived from source text (body-less combine fields)
  return tree


def check_spans(ctx, mode, rules, text, info, kind):
  n_all = 0
  statements = treecmp.statement_texts(rules)
  for r in rules:
    n, bad = treecmp.check_spans(r, statements)
    n_all += n
    for b in bad[:2]:
      ctx.count('span_violations')
      key = None
      if mode == 'CPP' and 'is not a statement of the program' in b:
        import re
        m = re.search(r"the span '([^']*)' points into '([^']*)'", b)
        if m and m.group(1) == m.group(2) and (m.group(1) + '[') in str(r.get('full_text', '')):
          key = 'C15/cpp-detached-span/array-subscript'
      ctx.violation(key, 'a source span is not the text at its position (%s parser, %s text): %s' % (mode, kind, b),
                    dict(info, text=text, parser=mode))
  ctx.count('spans_checked_' + mode, n_all)


KEYWORDS = ('in', 'is', 'is not', 'combine', 'if', 'then', 'else', 'else if', 'as', 'distinct', 'order_by', 'limit', 'import')


def classify(kind, small, mode, diff=''):
  """Recorded mechanisms.  (1) keyword operators are matched as literal strings with exactly one space, so a
  newline / tab / second space next to one of them changes the parse: one key per keyword.  (2) an operator
  directly followed by a predicate name is read as part of the name (`-F(x)` is a call of `-F`), so noise
  between them changes the tree.  (3) a body-less `combine Op= e` in argument position becomes a field whose
  *name* is the source text, spaces included."""
  if len(small) == 1 and kind != 'keyword':
    it = small[0]
    if it[3] in ('-', '!', '+', '*', '/', '%', '^', '++', '==', '<', '>', '<=', '>=', '!=', '&&', '||', '->', '=') and (it[4][:1].isupper() or it[4][:1] == '`' or '.' in it[4] or it[4][:1].islower()) \
        and 'predicate_name' in diff:
      return 'C15/operator-glued-to-predicate-name'
    if (it[4] == '}' or it[3] == '{') and ('the_number' in diff or 'Could not parse expression of a value' in diff or 'C++ parser error' in diff or 'the_string' in diff or 'var_name' in diff):
      return 'C15/bodyless-concise-combine-not-stripped'
    if it[3] == '-' and it[4][:1].isdigit():
      return 'C15/negative-number-literal-folding'
    if ".field: \"'combine " in diff or ".field: 'combine " in diff or ('.field:' in diff and 'combine ' in diff):
      return 'C15/bodyless-combine-field-named-by-text'
  if kind == 'keyword' and small and all(it[2] == 'kw' for it in small):
    kws = sorted({(it[3] if it[3] in KEYWORDS else it[4]) for it in small if it[3] in KEYWORDS or it[4] in KEYWORDS})
    if len(kws) == 1:
      return 'C15/keyword-spacing/%s' % kws[0].replace(' ', '_')
    if kws:
      return 'C15/keyword-spacing/%s' % kws[0].replace(' ', '_')
  return None


def finalize(agg, tier):
  out = []
  c = agg['counters']
  for k in ('bases', 'variants', 'equal_PY', 'equal_CPP', 'spans_checked_PY', 'spans_checked_CPP', 'with_comments', 'trailing_semicolon',
            'keyword_noise_variants', 'special_strings'):
    if not c.get(k):
      out.append('mandatory counter %s is zero' % k)
  return out


def replay(w):
  from vf.checks import semantic
  c = semantic.Collector()
  pipeline.mods()
  build.install(build.ensure('prod'))
  run_case(c, w['case_seed'], w['i'], w.get('n_variants', 5))
  return c.report()
