"""C04 - functor application is predicate substitution."""
import random

from vf.checks import semantic
from vf.core.shard import stable_hash
from vf.gen import ir, printer, progen, transform
from vf.mon import hooks, pipeline
from vf.ref import compare, evaluator

ID = 'C04'
LEVEL = 'exploration'
RULE = ('layered generated programs: families of extensional tables with one signature (candidate functor arguments and values), zero-argument '
        'functional constants, chains and diamonds of derived predicates above them; 1-4 applications per program: several arguments at once '
        '(incl. swaps A: B, B: A), a functor applied to a functor result, the same functor with different and with equal bindings, constants '
        'as arguments, made predicates read by further rules; oracle 1: reference evaluator with substitution semantics for every made and '
        'every original predicate; oracle 2: the program with the substitution done by hand at IR level (cloned rules, fresh names) compiled '
        'through the same pipeline; one evaluation = one (program, predicate); distinct = hash(program text, predicate); non-trivial = a made '
        'predicate whose argument is reached through >= 1 intermediate and whose rows differ from the functor predicate\'s')
ASSUMPTIONS = ['substitution is simultaneous and composes as in DESIGN 4.21 rule 12', 'reference evaluator as in C01/C02']
MIN_NONTRIVIAL = 20
REPORT_COUNTERS = ['programs', 'predicates', 'ok', 'mismatch', 'made_predicates', 'made_ok', 'originals_ok', 'by_hand_equal', 'CallFunctor',
                   'cache_hits_expected', 'functor_of_functor', 'equal_bindings', 'constant_args', 'multi_args', 'through_intermediate', 'discarded']


def plan(tier, seed):
  return {'nshards': 16, 'timeout_s': 5400 if tier == 'thorough' else 1200,
          'params': {'n_programs': 60 if tier == 'thorough' else 12}}


def deps(prog, sure=False):
  """sure=True: only dependencies that certainly survive the substitutions (a made predicate is followed to the
  values of its binding only, not into its functor, whose use of the replaced names is gone)."""
  direct = {}
  for r in prog['rules']:
    direct.setdefault(r['pred'], set()).update(ir.called_preds_rule(r))
  # made predicates depend on their functor and on the values
  for a in prog['annotations']:
    if a[0] == 'make':
      if not sure:
        direct.setdefault(a[1], set()).add(a[2])
      for _, y in a[3]:
        if isinstance(y, str):
          direct.setdefault(a[1], set()).add(y)
  out = {}

  def go(p, seen):
    for q in direct.get(p, ()):
      if q not in seen:
        seen.add(q)
        go(q, seen)
    return seen
  for p in list(direct):
    out[p] = go(p, set())
  return direct, out


def fam_all(families):
  return {t for fam in families for t in fam}


def build(rng):
  g = progen.Gen(rng, {'n_ext': (0, 1), 'n_der': (0, 0), 'lists': 0.2, 'records': 0.2, 'func': 0.7, 'inj': 0.3, 'agg': 0.25,
                       'combine': 0.25, 'neg': 0.25, 'max_facts': 4})
  # families of argument tables with one signature
  families = []
  names = iter(['A', 'B', 'C', 'Aa', 'Ab', 'Src', 'Alt'])
  for _ in range(rng.choice([1, 1, 2])):
    arity = rng.choice([1, 2, 2])
    cols = g.columns_spec(arity, allow_composite=False)
    fam = []
    for _ in range(rng.choice([2, 3])):
      name = next(names)
      rows = [[g.const(t) for _, _, t in cols] for _ in range(rng.randint(1, 4))]
      if rng.random() < 0.3:
        rows.append(rows[0])
      for row in rows:
        g.rules.append({'pred': name, 'args': [(f, e, None) for (_, f, _), e in zip(cols, row)], 'value': None, 'distinct': False, 'body': None})
      g.preds[name] = {'cols': [(c, t) for c, _, t in cols], 'kind': 'ext', 'fields': [f for _, f, _ in cols]}
      g.order.append(name)
      fam.append(name)
    families.append(fam)
  # constants
  consts = []
  for name in ['K', 'Kb'][:rng.choice([0, 1, 1, 2])]:
    g.rules.append({'pred': name, 'args': [], 'value': (ir.N(rng.choice([0, 1, 2, 3])), None), 'distinct': False, 'body': None})
    g.preds[name] = {'cols': [('logica_value', 'int')], 'fields': ['logica_value'], 'kind': 'fun', 'value_type': 'int'}
    g.order.append(name)
    consts.append(name)
  if rng.random() < 0.5:
    g.gen_ext()
  if rng.random() < 0.3:
    g.gen_injectible()
  for _ in range(rng.randint(3, 6)):
    g.gen_derived()
  # a forced chain  F -> Mid -> Inner -> A  (the argument is reached through two intermediates only) ...
  chain = None
  big = [fam for fam in families if len(fam) >= 3]
  if big and rng.random() < 0.6:
    fam = rng.choice(big)
    saved = (g.f.get('func'), g.f.get('inj'))
    g.f['func'] = 0.0            # no functional calls: the chain must be the only path to the argument
    g.f['inj'] = 0.0
    unrelated = [n for n in g.order if g.preds[n]['kind'] == 'ext' and n not in fam_all(families)]
    g.call_pool = [fam[0]]
    inner = g.gen_derived()
    g.call_pool = [inner] + unrelated[:1]
    mid = g.gen_derived()
    g.call_pool = [mid] + unrelated[:1]
    top = g.gen_derived()
    g.call_pool = None
    g.f['func'], g.f['inj'] = saved
    chain = (top, mid, inner, fam)
  prog = {'rules': g.rules, 'annotations': [('Engine', 'sqlite')], 'preds': g.preds, 'order': list(g.order), 'features': dict(g.used_features)}
  direct, closure = deps(prog)
  fam_of = {t: fam for fam in families for t in fam}
  functors = [p for p in prog['order'] if prog['preds'][p]['kind'] in ('derived', 'fun') and p not in consts
              and (closure.get(p, set()) & (set(fam_of) | set(consts)))]
  if not functors:
    return None
  makes = []
  feats = {}
  # names of the made predicates sort before / after / between the functors' names in every way (MakeAll walks them sorted)
  name_pool = ['W1', 'W2', 'W3', 'W4', 'W5', 'W6', 'Zz1', 'Aa0', 'M9', 'Yy', 'Ab2', 'Vv']
  if rng.random() < 0.6:
    rng.shuffle(name_pool)
  made_names = (n for n in name_pool if n not in g.preds)
  made_meta = {}
  if chain is not None:
    top, mid, inner, fam = chain
    if fam[0] in closure.get(top, set()) and fam[0] not in direct.get(top, set()) and fam[0] not in direct.get(mid, set()):
      # ... applied twice (or the functor and its intermediate) with different bindings: instantiated intermediates must not be shared
      second = top if rng.random() < 0.7 else mid
      for f, tgt in ((top, fam[1]), (second, fam[2])):
        name = next(made_names)
        makes.append((name, f, ((fam[0], tgt),)))
        made_meta[name] = dict(prog['preds'][f], made=True)
      feats['deep_chain_two_bindings'] = 1
      feats['through_intermediate'] = feats.get('through_intermediate', 0) + 2
  for k in range(rng.choice([1, 2, 2, 3, 4])):
    name = next(made_names)
    x = rng.random()
    if makes and x < 0.2:
      # equal bindings: the same application again
      _, f, binding = rng.choice(makes)
      feats['equal_bindings'] = feats.get('equal_bindings', 0) + 1
    elif makes and x < 0.45:
      # functor of a functor result: a value of the earlier application becomes the argument
      prev, f0, b0 = rng.choice(makes)
      vals = [y for _, y in b0 if isinstance(y, str) and y in fam_of]
      if not vals:
        continue
      key = rng.choice(vals)
      others = [t for t in fam_of[key] if t != key]
      if not others:
        continue
      f, binding = prev, ((key, rng.choice(others)),)
      feats['functor_of_functor'] = feats.get('functor_of_functor', 0) + 1
    else:
      f = rng.choice(functors)
      keys = sorted(closure[f] & set(fam_of))
      ckeys = sorted(closure[f] & set(consts))
      binding = []
      rng.shuffle(keys)
      for key in keys[:rng.choice([1, 1, 2])]:
        others = [t for t in fam_of[key] if t != key]
        if others:
          binding.append((key, rng.choice(others)))
      if ckeys and (not binding or rng.random() < 0.4):
        binding.append((rng.choice(ckeys), rng.choice([5, 7, -1])))
        feats['constant_args'] = feats.get('constant_args', 0) + 1
      if not binding:
        continue
      if len(binding) >= 2:
        feats['multi_args'] = feats.get('multi_args', 0) + 1
      binding = tuple(binding)
      # argument reached through an intermediate?
      if any(key not in direct.get(f, ()) for key, _ in binding):
        feats['through_intermediate'] = feats.get('through_intermediate', 0) + 1
    makes.append((name, f, tuple(binding)))
    base_meta = made_meta.get(f) or prog['preds'][f]
    made_meta[name] = dict(base_meta, kind=base_meta['kind'] if base_meta['kind'] in ('derived', 'fun') else 'derived', made=True)
  if not makes:
    return None
  prog['annotations'] = prog['annotations'] + [('make', n, f, b) for n, f, b in makes]
  for n, _, _ in makes:
    prog['preds'][n] = made_meta[n]
    prog['order'].append(n)
  # a reader of the made predicates
  g.preds, g.order = prog['preds'], prog['order']
  n0 = len(g.rules)
  readers = []
  for _ in range(rng.choice([0, 1, 1, 2])):
    readers.append(g.gen_derived())
  # ... and a forced shape: Via reads a made predicate M, Both reads Via and an argument table directly; Both is applied in
  # round two. M must be built before the application of Both although Both names M only through Via.
  made_now = [n for n, _, _ in makes]
  if made_now and families and rng.random() < 0.6:
    saved = (g.f.get('func'), g.f.get('inj'))
    g.f['func'], g.f['inj'] = 0.0, 0.0
    m_pred = rng.choice(made_now)
    fam = rng.choice(families)
    g.call_pool = [m_pred]
    via = g.gen_derived()
    g.call_pool = [via, fam[0]]
    both = g.gen_derived()
    g.call_pool = None
    g.f['func'], g.f['inj'] = saved
    readers.append(both)
  prog['rules'] = g.rules
  prog['order'] = list(g.order)
  # second round: a functor that reaches a made predicate only through an ordinary predicate is applied itself
  if readers and rng.random() < 0.7:
    direct2, closure2 = deps(prog, sure=True)
    made_set = {n for n, _, _ in makes}
    more = []
    for f in readers:
      if prog['preds'][f]['kind'] not in ('derived', 'fun'):
        continue
      keys = sorted(closure2.get(f, set()) & set(fam_of))
      if not (closure2.get(f, set()) & made_set) or not keys:
        continue
      key = rng.choice(keys)
      others = [t for t in fam_of[key] if t != key]
      if not others:
        continue
      name = next(made_names)
      more.append((name, f, ((key, rng.choice(others)),)))
      made_meta[name] = dict(prog['preds'][f], made=True)
      feats['functor_over_made'] = feats.get('functor_over_made', 0) + 1
    if more:
      makes = makes + more
      prog['annotations'] = prog['annotations'] + [('make', n, f, b) for n, f, b in more]
      for n, _, _ in more:
        prog['preds'][n] = made_meta[n]
        prog['order'].append(n)
  prog['features'] = dict(g.used_features, **feats)
  return prog, makes


def by_hand(prog, makes):
  """The same program with every application replaced by explicitly cloned rules (fresh names)."""
  rules_of = {}
  for r in prog['rules']:
    rules_of.setdefault(r['pred'], []).append(r)
  direct, closure = deps(prog)
  new_rules = list(prog['rules'])
  new_preds = dict(prog['preds'])
  new_order = [p for p in prog['order'] if not prog['preds'][p].get('made')]
  counter = [0]
  made_def = {n: (f, dict(b)) for n, f, b in makes}

  def instantiate(p, sigma, target_name=None):
    """Returns the name of a predicate equal to p under sigma (sigma: key -> predicate name or ('const', v))."""
    if p in sigma:
      return sigma[p]
    if p in made_def:
      f, b = made_def[p]
      # substitutions compose: the values are read in the current context, names the inner application does
      # not bind keep the current context's binding
      inner = dict(sigma)
      for k, v in b.items():
        inner[k] = instantiate(v, sigma) if isinstance(v, str) else ('const', v)
      return instantiate(f, inner, target_name)
    touches = (closure.get(p, set()) | {p}) & set(sigma)
    made_below = (closure.get(p, set()) & set(made_def))
    if not touches and not made_below and target_name is None:
      return p
    if p not in rules_of:
      return p
    counter[0] += 1
    name = target_name or ('%sH%d' % (p, counter[0]))
    for r in rules_of[p]:
      def fe(e):
        if e[0] == 'fcall':
          t = instantiate(e[1], sigma)
          if isinstance(t, tuple):
            return ('num', t[1])
          return ('fcall', t, e[2])
        return e

      def fp(q):
        if q[0] == 'call':
          t = instantiate(q[1], sigma)
          if isinstance(t, tuple):
            raise ValueError('constant used as a table')
          return ('call', t, q[2])
        return q
      nr = ir.map_rule(r, fe, fp)
      nr['pred'] = name
      new_rules.append(nr)
    meta = dict(prog['preds'][p])
    meta.pop('made', None)
    new_preds[name] = meta
    new_order.append(name)
    return name
  mapping = {}
  for n, f, b in makes:
    mapping[n] = instantiate(n, {}, target_name=n + 'ByHand')
  # readers of made predicates: re-point them to the hand-made clones
  final_rules = []
  for r in new_rules:
    if r['pred'] in made_def:
      continue
    final_rules.append(ir.rename_preds_rule(r, mapping) if (ir.called_preds_rule(r) & set(mapping)) else r)
  out = {'rules': final_rules, 'annotations': [a for a in prog['annotations'] if a[0] != 'make'], 'preds': new_preds,
         'order': new_order, 'features': {}}
  return out, mapping


def run_shard(ctx):
  pipeline.mods()
  pipeline.enable_library_memo()
  counters = hooks.install_counters(['Functors'])
  for i in range(ctx.params['n_programs']):
    run_case(ctx, ctx.rng.randrange(1 << 48), i)
  for k, v in counters.items():
    ctx.count(k, v)


def run_case(ctx, case_seed, i):
  rng = random.Random(case_seed)
  built = None
  for _ in range(5):
    built = build(rng)
    if built:
      break
  if not built:
    ctx.count('no_functor_candidate')
    return
  prog, makes = built
  text, _ = printer.program_text(prog)
  info = {'case_seed': case_seed, 'i': i}
  ctx.journal(dict(info, program=text))
  ctx.count('programs')
  for k in ('functor_of_functor', 'equal_bindings', 'constant_args', 'multi_args', 'through_intermediate'):
    ctx.count(k, prog['features'].get(k, 0))
  if prog['features'].get('equal_bindings'):
    ctx.count('cache_hits_expected')
  rules, bad = pipeline.parse_program(text)
  if bad:
    ctx.violation(None, 'program with functor applications rejected at parse: %s' % (bad.message or '')[:300], dict(info, program=text, observed=bad.brief()))
    return
  baseline = semantic.baseline_switches()
  ev = evaluator.Evaluator(prog, switches=dict(baseline))
  made = {n for n, _, _ in makes}
  observed = {}
  for pred in semantic.concrete_preds(prog):
    try:
      res = semantic.check_predicate(prog, text, rules, pred, ev)
    except evaluator.Unsupported as e:
      ctx.note('outside fragment: %s' % str(e)[:200])
      continue
    observed[pred] = res
    ctx.count('predicates')
    ctx.count(res.status)
    if pred in made:
      ctx.count('made_predicates')
    nontrivial = False
    if res.status == 'ok':
      ctx.count('made_ok' if pred in made else 'originals_ok')
      if pred in made:
        f = next(f for n, f, _ in makes if n == pred)
        fo = observed.get(f)
        nontrivial = bool(prog['features'].get('through_intermediate')) and fo is not None and fo.status == 'ok' and \
            sorted(map(repr, fo.outcome.rows)) != sorted(map(repr, res.outcome.rows))
    ctx.case(stable_hash([text, pred]), nontrivial)
    if res.status in ('ok', 'discarded'):
      if nontrivial and ctx.rng.random() < 0.03:
        ctx.sample({'program': text, 'predicate': pred, 'rows': res.outcome.rows[:8]})
      continue
    key = None
    if res.status == 'diagnostic':
      key = semantic.classify_order_sensitive_rejection(prog, res, 'C04', switches=dict(baseline))
    if key is None and res.status == 'mismatch':
      key = semantic.classify_null_equality_under_injection(prog, res, 'C04', switches=dict(baseline))
    what = {'mismatch': 'rows differ from the substitution semantics', 'diagnostic': 'valid program rejected',
            'internal': 'internal error instead of rows'}[res.status]
    ctx.violation(key, '%s for %s %s: %s' % (what, 'made predicate' if pred in made else 'original predicate', pred, (res.detail or '')[:300]),
                  semantic.witness(prog, text, res, info))
  # oracle 2: substitution by hand, through the same pipeline
  try:
    hand, mapping = by_hand(prog, makes)
  except ValueError:
    return
  htext, _ = printer.program_text(hand)
  hrules, hbad = pipeline.parse_program(htext)
  if hbad:
    ctx.count('by_hand_rejected')
    return
  for n in made:
    if n not in observed or observed[n].status not in ('ok', 'mismatch'):
      continue
    o = pipeline.run(htext, mapping[n], rules=hrules)
    if o.kind != 'rows':
      ctx.count('by_hand_failed')
      continue
    a = sorted(repr([compare.decode_observed(v, None) for v in r]) for r in observed[n].outcome.rows)
    b = sorted(repr([compare.decode_observed(v, None) for v in r]) for r in o.rows)
    if a == b and list(o.columns) == list(observed[n].outcome.columns):
      ctx.count('by_hand_equal')
    else:
      # List order / ties: fall back to the reference of the made predicate
      try:
        cols, table = semantic.expected_table(ev, n)
        if compare.compare_tables(table, cols, o.rows, o.columns, semantic.col_types(prog, n, cols)) is None and observed[n].status == 'ok':
          ctx.count('by_hand_equal')
          continue
      except Exception:
        pass
      ctx.violation(None, 'made predicate %s differs from the program with the substitution done by hand' % n,
                    dict(info, program=text, by_hand=htext, predicate=n, functor_rows=observed[n].outcome.rows[:20], by_hand_rows=o.rows[:20]))


def finalize(agg, tier):
  out = []
  c = agg['counters']
  for k in ('programs', 'predicates', 'made_predicates', 'made_ok', 'originals_ok', 'by_hand_equal', 'CallFunctor', 'functor_of_functor',
            'equal_bindings', 'constant_args', 'multi_args', 'through_intermediate'):
    if not c.get(k):
      out.append('mandatory counter %s is zero' % k)
  return out


def replay(w):
  c = semantic.Collector()
  pipeline.mods()
  run_case(c, w['case_seed'], w['i'])
  return c.report()
