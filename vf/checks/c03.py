"""C03 - recursion is the bounded iteration, and the least fixpoint once it converges."""
import random

from vf.checks import semantic
from vf.core.shard import stable_hash
from vf.gen import ir, printer
from vf.gen.ir import V, N
from vf.mon import pipeline
from vf.ref import compare, evaluator, recursion

ID = 'C03'
LEVEL = 'exploration'
RULE = ('recursive programs from 9 templates over random graphs (<= 6 nodes) and counters: counters (the largest value is the number of '
        'applications), linear / non-linear transitive closure with and without distinct, shortest paths through Min=, win-move through '
        'negation, mutual recursion cut-able at one predicate (vertical over a cover of 2-3) and not cut-able (flat), each with a consumer '
        'predicate; depth from {1,2,3,7,default 8,9,19,20,21,22,23,24,40} (quick) or every depth <= 45 and 60, 100 (thorough), `iterative:` '
        'forced on and off; depth > 20 / iterative plans are executed through concertina_lib.ExecuteLogicaProgram like run_in_terminal; the '
        'unfolding style chosen by the compiler is observed; one evaluation = one (program, predicate) compared with T^(depth+1)(empty) '
        '(exact for self-recursive, flat and iterative unfolding; T^(depth+1) subset result subset lfp for vertical unfolding of a larger cover of a '
        'monotone set-valued program); distinct = hash(program text, predicate); non-trivial = the depth bound is binding (result differs '
        'from depth-1) or the fixpoint is reached before the bound')
ASSUMPTIONS = ['reference: simultaneous immediate-consequence operator iterated from empty relations (vf/ref/recursion.py) on top of the C01/C02 evaluator',
               'multiplicities capped symmetrically; capped cases are discarded']
MIN_NONTRIVIAL = 60
REPORT_COUNTERS = ['programs', 'predicates', 'exact_ok', 'bounds_ok', 'mismatch', 'style_vertical', 'style_horizontal', 'style_iterative_horizontal',
                   'iterative_statements', 'bound_binding', 'fixpoint_before_bound', 'workflow_path', 'script_path', 'discarded']

DEPTHS_QUICK = [1, 2, 3, 7, None, 9, 19, 20, 21, 22, 23, 24, 40]


def plan(tier, seed):
  return {'nshards': 16, 'timeout_s': 5400 if tier == 'thorough' else 1200,
          'params': {'n_programs': 180 if tier == 'thorough' else 26}}


def rule(pred, args, body=None, value=None, distinct=False):
  return {'pred': pred, 'args': [(a[0], a[1], a[2] if len(a) > 2 else None) for a in args], 'value': value,
          'distinct': distinct, 'body': body}


def call(p, *args):
  return ('call', p, tuple((None, a) for a in args))


def conj(*lits):
  return ('and', tuple(lits))


def random_graph(rng, n_nodes=None, n_edges=None, dag=False):
  n = n_nodes or rng.randint(3, 6)
  m = n_edges or rng.randint(2, 8)
  edges = []
  for _ in range(m):
    a, b = rng.randrange(n), rng.randrange(n)
    if dag and a >= b:
      a, b = min(a, b), max(a, b) + (1 if a == b else 0)
    edges.append((a, b))
  return edges


def build(rng, tier):
  """Returns dict(prog, comp, depth, template, monotone_set, distinct)."""
  t = rng.choice(['counter', 'counter2', 'tc_linear', 'tc_nonlinear', 'tc_multiset', 'shortest', 'winmove', 'mutual_cut', 'mutual_flat',
                  'mutual_cut3', 'tc_linear', 'mutual_flat', 'counter_distinct', 'counter_distinct'])
  rules = []
  preds = {}
  order = []
  anns = [('Engine', 'sqlite')]

  def ext(name, rows):
    for r in rows:
      rules.append(rule(name, [(None, N(v)) for v in r]))
    preds[name] = {'cols': [('col%d' % i, 'int') for i in range(len(rows[0]))], 'fields': [None] * len(rows[0]), 'kind': 'ext'}
    order.append(name)

  def derived(name, arity, kind='derived', agg=False):
    preds[name] = {'cols': [('col%d' % i, 'int') for i in range(arity)], 'fields': [None] * arity, 'kind': kind}
    if agg:
      preds[name]['agg'] = True
    order.append(name)
  small_only = False
  monotone_set = True
  edges = random_graph(rng)
  if rng.random() < 0.3:
    edges = edges + [rng.choice(edges)]      # duplicate edge
  if t in ('counter', 'counter2', 'counter_distinct'):
    # counter_distinct: a set-valued counter (several distinct rules -> the parser's multi-body aggregation helper is
    # part of the component); it never converges within the depth, so every application is visible in the result
    dd = t == 'counter_distinct'
    k = rng.choice([1, 1, 1, 2])
    lim = rng.choice([None, None, 5, 12, 30]) if not dd else rng.choice([None, None, 40, 200])
    rules.append(rule('Nat', [(None, N(rng.choice([0, 0, 1])))], distinct=dd))
    if t == 'counter2' or (dd and rng.random() < 0.4):
      rules.append(rule('Nat', [(None, N(rng.choice([0, 3])))], distinct=dd))
    body = call('Nat', V('n'))
    if lim is not None:
      body = conj(body, ('cmp', '<', V('n'), N(lim)))
    rules.append(rule('Nat', [(None, ('bin', '+', V('n'), N(k)))], body, distinct=dd))
    derived('Nat', 1, agg=dd)
    comp = ['Nat']
    monotone_set = False      # a multiset program: exact claim only
    main = 'Nat'
  elif t in ('tc_linear', 'tc_nonlinear', 'tc_multiset'):
    ext('E', edges)
    d = t != 'tc_multiset'
    rules.append(rule('TC', [(None, V('x')), (None, V('y'))], call('E', V('x'), V('y')), distinct=d))
    if t == 'tc_nonlinear':
      body = conj(call('TC', V('x'), V('y')), call('TC', V('y'), V('z')))
    elif rng.random() < 0.5:
      body = conj(call('TC', V('x'), V('y')), call('E', V('y'), V('z')))
    else:
      body = conj(call('E', V('x'), V('y')), call('TC', V('y'), V('z')))
    rules.append(rule('TC', [(None, V('x')), (None, V('z'))], body, distinct=d))
    derived('TC', 2, agg=d)
    comp = ['TC']
    main = 'TC'
    if not d:
      small_only = True
      monotone_set = False
  elif t == 'shortest':
    ext('E', edges)
    rules.append(rule('D', [(None, V('x')), (None, V('y'))], call('E', V('x'), V('y')), value=(N(1), 'Min='), distinct=True))
    if rng.random() < 0.5:
      rules.append(rule('D', [(None, V('x')), (None, V('z'))], None, distinct=True,
                        value=(('bin', '+', ('fcall', 'D', ((None, V('x')), (None, V('y')))), ('fcall', 'D', ((None, V('y')), (None, V('z'))))), 'Min=')))
    else:
      rules.append(rule('D', [(None, V('x')), (None, V('z'))], call('E', V('y'), V('z')), distinct=True,
                        value=(('bin', '+', ('fcall', 'D', ((None, V('x')), (None, V('y')))), N(1)), 'Min=')))
    preds['D'] = {'cols': [('col0', 'int'), ('col1', 'int'), ('logica_value', 'int')], 'fields': [None, None, 'logica_value'],
                  'kind': 'fun', 'value_type': 'int', 'agg': True}
    order.append('D')
    comp = ['D']
    main = 'D'
    monotone_set = False
  elif t == 'winmove':
    ext('Move', random_graph(rng, dag=rng.random() < 0.6))
    rules.append(rule('Win', [(None, V('x'))], conj(call('Move', V('x'), V('y')), ('not', call('Win', V('y')))), distinct=True))
    derived('Win', 1, agg=True)
    comp = ['Win']
    main = 'Win'
    monotone_set = False
  elif t in ('mutual_cut', 'mutual_cut3'):
    ext('E', edges)
    start = rng.choice([e[0] for e in edges])
    rules.append(rule('A', [(None, V('x'))], ('cmp', '==', V('x'), N(start)), distinct=True))
    rules.append(rule('A', [(None, V('y'))], conj(call('B', V('x')), call('E', V('x'), V('y'))), distinct=True))
    if t == 'mutual_cut3':
      rules.append(rule('B', [(None, V('x'))], call('C', V('x')), distinct=True))
      rules.append(rule('C', [(None, V('x'))], call('A', V('x')), distinct=True))
      derived('C', 1, agg=True)
      comp = ['A', 'B', 'C']
    else:
      rules.append(rule('B', [(None, V('x'))], call('A', V('x')), distinct=True))
      if rng.random() < 0.4:
        rules.append(rule('B', [(None, V('y'))], conj(call('A', V('x')), call('E', V('y'), V('x'))), distinct=True))
        t = 'mutual_cut2'     # two recursive rules per step: the non-iterative unfolding doubles with every level
      comp = ['A', 'B']
    derived('A', 1, agg=True)
    derived('B', 1, agg=True)
    main = rng.choice(comp)
  else:   # mutual_flat: two interlocked cycles, no single predicate cuts both
    ext('E', edges)
    start = rng.choice([e[0] for e in edges])
    rules.append(rule('C', [(None, V('x'))], ('cmp', '==', V('x'), N(start)), distinct=True))
    rules.append(rule('C', [(None, V('y'))], conj(call('D', V('x')), call('E', V('x'), V('y'))), distinct=True))
    rules.append(rule('C', [(None, V('y'))], conj(call('C', V('x')), call('E', V('x'), V('y'))), distinct=True))
    rules.append(rule('D', [(None, V('x'))], call('C', V('x')), distinct=True))
    rules.append(rule('D', [(None, V('y'))], conj(call('D', V('x')), call('C', V('x')), call('E', V('x'), V('y'))), distinct=True))
    derived('C', 1, agg=True)
    derived('D', 1, agg=True)
    comp = ['C', 'D']
    main = rng.choice(comp)
  # depth
  depths = DEPTHS_QUICK if tier == 'quick' else list(range(1, 46)) + [60, 100, None, None]
  depth = rng.choice(depths)
  if small_only:
    depth = rng.choice([1, 2, 3])
  heavy = t in ('mutual_flat', 'tc_nonlinear', 'mutual_cut3', 'mutual_cut2')
  opts = ()
  if depth is not None and rng.random() < 0.2:
    opts = (('iterative', 'true' if (depth <= 20 or rng.random() < 0.5) else 'false'),)
    if small_only:
      opts = (('iterative', 'true'),)
  if heavy and depth is not None and 9 < depth <= 20 and ('iterative', 'true') not in opts:
    depth = rng.choice([2, 3, 5, 7, 9])      # non-iterative unfolding of these shapes grows exponentially with depth
  if heavy and ('iterative', 'false') in opts:
    opts = ()
    depth = min(depth, 9)
  if depth is not None:
    anns.append(('Recursive', min(comp) if rng.random() < 0.7 else rng.choice(comp), depth, opts))
  # consumer
  cons_args = [V('c%d' % i) for i in range(len(preds[main]['cols']) - (1 if preds[main]['kind'] == 'fun' else 0))]
  rules.append(rule('Cons', [(None, cons_args[0]), ('n', N(1), '+=')], call(main, *cons_args), distinct=True))
  preds['Cons'] = {'cols': [('col0', 'int'), ('n', 'int')], 'fields': [None, 'n'], 'kind': 'derived', 'agg': True}
  order.append('Cons')
  rng.shuffle(rules)
  prog = {'rules': rules, 'annotations': anns, 'preds': preds, 'order': order, 'features': {}}
  return {'prog': prog, 'comp': comp, 'depth': depth, 'template': t, 'monotone_set': monotone_set, 'main': main}


_styles = []


def install_style_observer():
  m = pipeline.mods()
  f = m['functors'].Functors
  if getattr(f.RecursiveAnalysis, '_vf_wrapped', False):
    return
  orig = f.RecursiveAnalysis

  def wrapped(self, *a, **k):
    r = orig(self, *a, **k)
    try:
      _styles.append(({p: s for p, s in r[0].items()}, {p: set(c) for p, c in r[1].items()}))
    except Exception:
      pass
    return r
  wrapped._vf_wrapped = True
  f.RecursiveAnalysis = wrapped


def run_shard(ctx):
  pipeline.mods()
  pipeline.enable_library_memo()
  install_style_observer()
  for i in range(ctx.params['n_programs']):
    run_case(ctx, ctx.rng.randrange(1 << 48), i)


def as_set(table):
  return {tuple(evaluator.canon(v) for v in row) for row in table}


def run_case(ctx, case_seed, i):
  rng = random.Random(case_seed)
  b = build(rng, ctx.tier)
  prog, comp, depth = b['prog'], b['comp'], b['depth']
  text, _ = printer.program_text(prog)
  info = {'case_seed': case_seed, 'i': i, 'template': b['template'], 'depth': depth}
  ctx.journal(dict(info, program=text))
  ctx.count('programs')
  ctx.count('template_' + b['template'])
  d = 8 if depth is None else depth
  baseline = semantic.baseline_switches()
  try:
    rev = recursion.RecursiveEvaluator(prog, {}, switches=dict(baseline))
    tables, history = rev.solve(comp, d + 1)
    prev = history[-2] if len(history) >= 2 else {p: {} for p in comp}
    binding = any(set(tables[p]) != set(prev[p]) or tables[p] != prev[p] for p in comp)
    lfp = None
    if b['monotone_set']:
      rev2 = recursion.RecursiveEvaluator(prog, {}, switches=dict(baseline))
      lfp, steps = rev2.fixpoint(comp)
  except (evaluator.Capped, evaluator.Ambiguous):
    ctx.count('discarded')
    return
  # run through the real code: iterative plans need the workflow path, the others are run on both paths alternately
  del _styles[:]
  targets = comp + ['Cons']
  use_workflow = (d > 20) or any(o == ('iterative', 'true') for a in prog['annotations'] if a[0] == 'Recursive' for o in (a[3] if len(a) > 3 else ())) or (i % 2 == 0)
  observed = {}
  n_statements = 0
  if use_workflow:
    ctx.count('workflow_path')
    for p in targets:
      res, trace, ex = pipeline.run_workflow(text, [p])
      if res is None:
        observed[p] = ex
      else:
        observed[p] = res[p]
        n_statements += len(trace)
  else:
    ctx.count('script_path')
    rules, bad = pipeline.parse_program(text)
    for p in targets:
      observed[p] = bad if bad else pipeline.run(text, p, rules=rules)
  style_map, cover_map = (_styles[0] if _styles else ({}, {}))
  head = next((p for p in style_map if p in comp), None)
  style = style_map.get(head)
  if style:
    ctx.count('style_' + style)
  if style == 'iterative_horizontal':
    ctx.count('iterative_statements', n_statements)
  visible_cover = {p for p in cover_map.get(head, set()) if '_MultBodyAggAux' not in p}
  exact = style in ('horizontal', 'iterative_horizontal') or (style == 'vertical' and len(visible_cover) == 1)
  for p in targets:
    o = observed[p]
    ctx.count('predicates')
    wit = dict(info, program=text, predicate=p, style=style, observed=o.brief())
    if o.kind == 'capped':
      ctx.count('discarded')
      continue
    if o.kind != 'rows':
      if o.kind == 'diagnostic' and any(m in (o.message or '') for m, _ in semantic.REJECTION_KINDS):
        ctx.count('discarded')
        continue
      if o.kind == 'diagnostic' and 'too deep' in (o.message or '') and 'recursion limit' in (o.message or ''):
        # the compiler's own, documented resource diagnostic for non-iterative unfolding at a large depth
        ctx.count('discarded_compiler_recursion_limit')
        continue
      ctx.violation(None, 'recursive program failed for %s (%s, depth %s): %s %s' % (p, style, depth, o.exc_type, (o.message or '')[:300]), wit)
      ctx.count('mismatch')
      continue
    try:
      cols, table = rev.columns(p), (tables[p] if p in tables else rev.table(p))
    except (evaluator.Capped, evaluator.Ambiguous):
      ctx.count('discarded')
      continue
    types = semantic.col_types(prog, p, cols)
    nontrivial = False
    if exact:
      why = compare.compare_tables(table, cols, o.rows, o.columns, types)
      if why:
        ctx.count('mismatch')
        key = None
        if style == 'iterative_horizontal' and d + 1 < len(comp) + 5:
          # recorded mechanism: an iterative plan never performs fewer applications than its ignition steps
          for k_app in range(d + 2, len(comp) + 6):
            rev3 = recursion.RecursiveEvaluator(prog, {}, switches=dict(baseline))
            try:
              t3, _ = rev3.solve(comp, k_app)
              tab3 = t3[p] if p in t3 else rev3.table(p)
              if compare.compare_tables(tab3, cols, o.rows, o.columns, types) is None:
                key = 'C03/iterative-depth-below-ignition'
                break
            except (evaluator.Capped, evaluator.Ambiguous):
              break
        ctx.violation(key, '%s unfolding of %s at depth %s is not T^%d(empty) for %s: %s' % (style, sorted(comp), depth, d + 1, p, why),
                      dict(wit, expected=compare.show_table(table)[:40]))
        continue
      ctx.count('exact_ok')
      nontrivial = True
    elif b['monotone_set'] and p in comp and lfp is not None:
      obs = {tuple(compare.decode_observed(v, None) for v in r) for r in o.rows}
      lower = as_set(tables[p])
      upper = as_set(lfp[p])
      if not lower <= obs:
        ctx.count('mismatch')
        ctx.violation(None, '%s: tuples derivable within %d applications are missing from %s: %s' % (style, d + 1, p, sorted(lower - obs)[:10]), wit)
        continue
      if not obs <= upper:
        ctx.count('mismatch')
        ctx.violation(None, '%s: %s contains tuples outside the least fixpoint: %s' % (style, p, sorted(obs - upper)[:10]), wit)
        continue
      if list(o.columns) != list(cols):
        ctx.violation(None, 'column names of %s: %s, expected %s' % (p, o.columns, cols), wit)
        continue
      ctx.count('bounds_ok')
      nontrivial = lower == upper
    else:
      ctx.count('not_judged_vertical_nonmonotone')
      continue
    if p in comp:
      if binding:
        ctx.count('bound_binding')
      else:
        ctx.count('fixpoint_before_bound')
    ctx.case(stable_hash([text, p]), nontrivial and len(o.rows) >= 1)
    if nontrivial and ctx.rng.random() < 0.02:
      ctx.sample({'program': text, 'predicate': p, 'style': style, 'depth': depth, 'rows': sorted(map(tuple, o.rows))[:12]})


def finalize(agg, tier):
  out = []
  c = agg['counters']
  for k in ('programs', 'predicates', 'exact_ok', 'bounds_ok', 'style_vertical', 'style_horizontal', 'style_iterative_horizontal',
            'iterative_statements', 'bound_binding', 'fixpoint_before_bound', 'workflow_path', 'script_path'):
    if not c.get(k):
      out.append('mandatory counter %s is zero' % k)
  return out


def replay(w):
  c = semantic.Collector()
  c.tier = w.get('tier', 'quick')
  pipeline.mods()
  install_style_observer()
  run_case(c, w['case_seed'], w['i'])
  return c.report()
