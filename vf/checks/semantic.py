"""Shared driver for the semantic checks: run every predicate of a generated program through the real
pipeline on SQLite and compare with the reference evaluator."""
import json

from vf.core.shard import stable_hash
from vf.gen import ir, printer
from vf.mon import pipeline
from vf.ref import compare, evaluator


class Result:
  __slots__ = ('pred', 'status', 'detail', 'outcome', 'expected', 'nontrivial', 'sql')

  def __init__(self, pred, status, detail=None, outcome=None, expected=None, nontrivial=False, sql=None):
    self.pred = pred
    self.status = status        # 'ok' | 'mismatch' | 'diagnostic' | 'internal' | 'discarded'
    self.detail = detail
    self.outcome = outcome
    self.expected = expected
    self.nontrivial = nontrivial
    self.sql = sql


def expected_table(ev, pred):
  """(cols, table) or raises evaluator.Capped / Ambiguous / Unsupported."""
  t = ev.table(pred)
  return ev.columns(pred), t


def col_types(prog, pred, cols):
  meta = prog.get('preds', {}).get(pred)
  if not meta:
    return [None] * len(cols)
  d = dict(meta['cols'])
  return [d.get(c) for c in cols]


def check_predicate(prog, text, rules, pred, ev, user_flags=None, run=None):
  try:
    cols, table = expected_table(ev, pred)
  except (evaluator.Capped, evaluator.Ambiguous) as e:
    return Result(pred, 'discarded', type(e).__name__)
  except RecursionError:
    return Result(pred, 'discarded', 'RecursionError in reference')
  out = (run or pipeline.run)(text, pred, rules=rules, user_flags=user_flags)
  if out.kind == 'capped':
    return Result(pred, 'discarded', 'sql step budget', out, table)
  if out.kind != 'rows':
    return Result(pred, out.kind, '%s at %s: %s' % (out.exc_type, out.stage, (out.message or '')[:600]), out, table)
  why = compare.compare_tables(table, cols, out.rows, out.columns, col_types(prog, pred, cols))
  n = sum(table.values())
  nontrivial = n > 0 and (len(table) < n or n >= 2)
  if why:
    return Result(pred, 'mismatch', why, out, table, nontrivial, out.sql)
  return Result(pred, 'ok', None, out, table, nontrivial, out.sql)


def witness(prog, text, res, extra=None):
  w = {'program': text, 'predicate': res.pred, 'status': res.status, 'detail': res.detail}
  if res.outcome is not None:
    w['observed'] = res.outcome.brief()
  if res.expected is not None:
    w['expected'] = compare.show_table(res.expected)[:60]
  if extra:
    w.update(extra)
  return w


def concrete_preds(prog):
  return [p for p in prog['order'] if prog['preds'][p]['kind'] != 'inj']


def static_features(prog):
  """Counts of constructs in the IR (for the feature histogram / non-triviality)."""
  feats = {}

  def bump(k):
    feats[k] = feats.get(k, 0) + 1

  def fe(e):
    if e[0] in ('fcall', 'comb', 'if', 'field', 'list', 'rec', 'ine', 'arrow'):
      bump(e[0])
    return e

  def fp(p):
    if p[0] in ('or', 'not', 'imp', 'in'):
      bump(p[0])
    if p[0] == 'call':
      bump('call')
    return p
  for r in prog['rules']:
    ir.map_rule(r, fe, fp)
    if r.get('distinct'):
      bump('distinct_rule')
  return feats


# ---------------------------------------------------------------------------------------------
# deviation switches <-> known-finding keys (see DESIGN 3.3 / 6)

SWITCH_KEY = {
    'sqlite_count_empty_is_zero': 'C02/sqlite-empty-aggregate/Count',
    'sqlite_list_empty_is_empty': 'C02/sqlite-empty-aggregate/List',
    'sqlite_list_keeps_nulls': 'C02/sqlite-null-elements/List',
    'sqlite_set_keeps_nulls': 'C02/sqlite-null-elements/Set',
}


def open_switches(prop='C02'):
  """Switches whose finding is listed as open for `prop` in known_findings.json."""
  from vf.core import runner
  keys = runner.open_finding_keys(prop)
  return [s for s, k in SWITCH_KEY.items() if k in keys]


def baseline_switches():
  """For checks other than C02: the reference models SQLite including the deviations recorded as open
  C02 findings (so that those checks judge only their own property)."""
  return {s: True for s in open_switches('C02')}


def explain_with_switches(prog, pred, out, allowed, make_ev=None):
  """On a mismatch: the smallest set of allowed switches under which reference == observed, or None."""
  import itertools
  if not allowed or out.kind != 'rows':
    return None

  undecidable = []

  def agrees(sw):
    ev = make_ev(sw) if make_ev else evaluator.Evaluator(prog, switches={s: True for s in sw})
    try:
      cols, table = expected_table(ev, pred)
    except (evaluator.Ambiguous, evaluator.Capped):
      undecidable.append(sw)     # under this deviation the reference depends on a tie choice: not judged
      return False
    except Exception:
      return False
    return compare.compare_tables(table, cols, out.rows, out.columns, col_types(prog, pred, cols)) is None
  if not agrees(allowed):
    # all switches together do not explain it; still try smaller sets (a switch can also over-correct)
    pass
  for k in range(1, len(allowed) + 1):
    for sub in itertools.combinations(allowed, k):
      if agrees(sub):
        return list(sub)
  if undecidable:
    return 'undecidable'
  return None


# ---------------------------------------------------------------------------------------------
# "valid program rejected": the order-driven elimination of internal variables

REJECTION_KINDS = [('Found no way to assign variables', 'no-way-to-assign'),
                   ('there was found no way to assign variables', 'no-way-to-assign'),      # wording inside injected / combine rules
                   ('circular dependency of', 'in-circular-dependency')]


def classify_order_sensitive_rejection(prog, res, prop, tries=16, switches=None):
  """A generated-valid program was rejected with a diagnostic.  If the message is one of the two
  variable-elimination messages AND some other order of the conjuncts of the same program compiles and
  returns exactly the reference rows, the rejection is the recorded order-sensitivity of
  ElliminateInternalVariables (key <prop>/elimination-order/<kind>); otherwise it is unclassified."""
  import random
  from vf.gen import transform
  msg = (res.detail or '')
  kind = next((k for m, k in REJECTION_KINDS if m in msg), None)
  if kind is None:
    return None
  for t in range(tries):
    variant = transform.permute_conjuncts(prog, random.Random(7919 * t + 1), disj=False)
    text, _ = printer.program_text(variant)
    rules, bad = pipeline.parse_program(text)
    if bad:
      continue
    ev = evaluator.Evaluator(variant, switches=switches)
    try:
      r2 = check_predicate(variant, text, rules, res.pred, ev)
    except evaluator.Unsupported:
      continue
    if r2.status in ('ok', 'mismatch', 'discarded'):
      # the recorded mechanism is 'rejected for some conjunct orders, compiled for others': it is established by an
      # order that compiles (whether that order's rows are right is judged when that order is the program under test)
      return '%s/elimination-order/%s' % (prop, kind)
  # second recorded mechanism: the rejection disappears when the single-rule predicates the rule calls are
  # kept from being injected (the injected definition steers the elimination into the cycle)
  variant = transform.clone(prog)
  single = [p for p in variant['order'] if variant['preds'][p]['kind'] != 'inj'
            and sum(1 for r in variant['rules'] if r['pred'] == p) == 1]
  variant['annotations'] = list(variant['annotations']) + [('NoInject', p) for p in single]
  text, _ = printer.program_text(variant)
  rules, bad = pipeline.parse_program(text)
  if not bad:
    ev = evaluator.Evaluator(variant, switches=switches)
    try:
      r2 = check_predicate(variant, text, rules, res.pred, ev)
      if r2.status == 'ok':
        return '%s/elimination-after-injection/%s' % (prop, kind)
    except evaluator.Unsupported:
      pass
  return None


# ---------------------------------------------------------------------------------------------
# generic case runner used by C01, C02 (and, through variants, C07 / C08 / C11)

def run_program_case(ctx, prop, prog, text, info, allowed_switches=(), baseline=None, extra_classify=None,
                     sample_rate=0.01):
  """Runs every concrete predicate of one generated program and reports to ctx.
  allowed_switches: deviation switches that may explain a mismatch (open findings of this property).
  baseline: switches that are on from the start (open findings of another property)."""
  ctx.journal(dict(info, program=text))
  ctx.count('programs')
  for k, v in prog.get('features', {}).items():
    ctx.count('feature_' + k, v)
  rules, bad = pipeline.parse_program(text)
  if bad:
    ctx.count('parse_' + bad.kind)
    ctx.violation(None, 'generated valid program rejected at parse: %s' % (bad.message or '')[:300],
                  dict(info, program=text, observed=bad.brief()))
    return
  ev = evaluator.Evaluator(prog, switches=dict(baseline or {}))
  for pred in concrete_preds(prog):
    try:
      res = check_predicate(prog, text, rules, pred, ev)
    except evaluator.Unsupported as e:
      ctx.count('generator_outside_fragment')
      ctx.note('reference does not define %s: %s' % (pred, str(e)[:200]))
      continue
    ctx.count('predicates')
    ctx.count(res.status)
    ctx.case(stable_hash([text, pred]), res.status == 'ok' and res.nontrivial)
    if res.status in ('ok', 'discarded'):
      if res.status == 'ok' and res.nontrivial and ctx.rng.random() < sample_rate:
        ctx.sample({'program': text, 'predicate': pred, 'columns': res.outcome.columns, 'rows': res.outcome.rows[:8]})
      continue
    keys = None
    if res.status == 'mismatch' and allowed_switches:
      sw = explain_with_switches(prog, pred, res.outcome, list(allowed_switches),
                                 make_ev=lambda s: evaluator.Evaluator(prog, switches=dict(baseline or {}, **{x: True for x in s})))
      if sw == 'undecidable':
        ctx.count('discarded_tie_under_known_deviation')
        continue
      if sw:
        keys = [SWITCH_KEY[s] for s in sw]
        ctx.count('explained_by_known_deviation')
    if keys is None and res.status == 'diagnostic':
      k = classify_order_sensitive_rejection(prog, res, prop, switches=dict(baseline or {}))
      if k:
        keys = [k]
    if keys is None and res.status == 'mismatch':
      k = classify_null_equality_under_injection(prog, res, prop, switches=dict(baseline or {}))
      if k:
        keys = [k]
    if keys is None and extra_classify is not None:
      k = extra_classify(prog, res)
      if k:
        keys = [k]
    what = {'mismatch': 'rows differ from the denoted multiset', 'diagnostic': 'valid program rejected',
            'internal': 'internal error instead of rows'}[res.status]
    for key in (keys or [None]):
      ctx.violation(key, '%s for predicate %s: %s' % (what, pred, (res.detail or '')[:300]),
                    witness(prog, text, res, info))
  report_udf_invariants(ctx, dict(info, program=text))


def report_udf_invariants(ctx, wit):
  """Invariants at a hook on the ArgMin / ArgMax UDF objects (vf/mon/udf_contracts.py), if the check installed them."""
  from vf.mon import udf_contracts
  if not udf_contracts.state['installed']:
    return
  for what, det in udf_contracts.drain()[:2]:
    ctx.violation(None, 'ArgMin/ArgMax UDF invariant broken during this program: %s %s' % (what, det), dict(wit, invariant=what, details=det))


class Collector:
  """Stand-in for the shard context when a witness is replayed."""

  def __init__(self, seed=0):
    import random
    self.rng = random.Random(seed)
    self.v = []
    self.counters = {}
    self.params = {}
    self.tier = 'quick'

  def journal(self, *a, **k):
    pass

  def count(self, name, k=1):
    self.counters[name] = self.counters.get(name, 0) + k

  def case(self, *a, **k):
    pass

  def sample(self, *a, **k):
    pass

  def note(self, *a, **k):
    pass

  def table(self, *a, **k):
    pass

  def violation(self, key, what, wit):
    self.v.append((key, what, wit))

  def report(self):
    lines = []
    for key, what, wit in self.v:
      lines.append('FAIL [%s] %s' % (key, what))
      for f in ('program', 'variant', 'expected', 'observed'):
        if wit.get(f) is not None:
          lines.append('%s: %s' % (f, wit.get(f)))
    return bool(self.v), '\n'.join(lines)


# ---------------------------------------------------------------------------------------------
# recorded mechanism: `x == x` on a null value holds when the equality is a tautology after injection

def with_noinject_everywhere(prog):
  from vf.gen import transform
  variant = transform.clone(prog)
  already = {a[1] for a in variant['annotations'] if a[0] in ('NoInject', 'Ground', 'OrderBy', 'Limit')}
  single = [p for p in variant['order'] if variant['preds'][p]['kind'] != 'inj' and p not in already
            and sum(1 for r in variant['rules'] if r['pred'] == p) == 1]
  variant['annotations'] = list(variant['annotations']) + [('NoInject', p) for p in single]
  return variant


def classify_null_equality_under_injection(prog, res, prop, switches=None):
  """Mismatch explained by: the observed rows are the reference rows plus rows containing null, and with
  injection switched off for every single-rule predicate the same program returns exactly the reference."""
  if res.status != 'mismatch' or res.outcome is None or res.outcome.kind != 'rows':
    return None
  if not any(v is None for r in res.outcome.rows for v in r):
    # the null may live in an intermediate predicate only: the mismatch is the recorded mechanism iff the reference
    # that lets a repeated variable holding null pass (and nothing else) reproduces the observed rows, and the plan
    # without injection returns the documented rows
    try:
      ev2 = evaluator.Evaluator(prog, switches=dict(switches or {}, null_unifies_with_null=True))
      cols, table = expected_table(ev2, res.pred)
      if compare.compare_tables(table, cols, res.outcome.rows, res.outcome.columns, col_types(prog, res.pred, cols)) is not None:
        return None
    except (evaluator.Unsupported, evaluator.Capped, evaluator.Ambiguous):
      return None
  variant = with_noinject_everywhere(prog)
  text, _ = printer.program_text(variant)
  rules, bad = pipeline.parse_program(text)
  if bad:
    return None
  ev = evaluator.Evaluator(variant, switches=switches)
  try:
    r2 = check_predicate(variant, text, rules, res.pred, ev)
  except evaluator.Unsupported:
    return None
  if r2.status == 'ok' and len(r2.outcome.rows) < len(res.outcome.rows):
    return '%s/null-equality-under-injection' % prop
  return None
