"""C18 - order_by and limit select the first K rows in the given order."""
import random

from vf.checks import semantic
from vf.core.shard import stable_hash
from vf.gen import ir, printer, progen, transform
from vf.mon import hooks, pipeline
from vf.ref import compare, evaluator

ID = 'C18'
LEVEL = 'exploration'
RULE = ('generated programs in which one derived predicate P with scalar columns gets @OrderBy over a permutation of all its columns '
        '(random directions, "col desc" and "col","DESC" spellings; a prefix of the columns in a minority of cases) and @Limit K with '
        'K in {0, 1, 2, n-1, n, n+1, 100}, written as annotations or as order_by(...)/limit(...) denotations; P is read as final '
        'predicate (ordered comparison) and by three consumers (copy/join, aggregation, negation; multiset comparison); one evaluation '
        '= one (program, predicate) run on SQLite and compared with the reference (sort, take K); distinct = hash(program text, '
        'predicate); non-trivial = K < n and the requested order differs from the unordered result order')
ASSUMPTIONS = ['SQLite orders NULL first ascending; strings compare by code point (ASCII only in the workload)',
               'a limit without a total order is only judged when every row survives or all rows are equal']
MIN_NONTRIVIAL = 40
REPORT_COUNTERS = ['programs', 'predicates', 'ok', 'mismatch', 'order_wrong', 'limit_zero_cases', 'denotation_form', 'annotation_form',
                   'consumers_checked', 'single_rule_target', 'discarded']


def plan(tier, seed):
  return {'nshards': 16, 'timeout_s': 5400 if tier == 'thorough' else 1200,
          'params': {'n_programs': 2500 if tier == 'thorough' else 400}}


FEATURES = {'lists': 0.0, 'records': 0.0, 'bool_cols': 0.0, 'func': 0.3, 'inj': 0.4, 'n_der': (2, 3), 'n_ext': (2, 3), 'max_facts': 6}


def build(rng, i):
  """Returns (prog, target, keys, k, consumers) or None."""
  g = progen.Gen(rng, FEATURES)
  prog = g.program()
  cands = [p for p in prog['order'] if prog['preds'][p]['kind'] == 'derived' and not prog['preds'][p].get('agg')
           and all(not isinstance(t, tuple) and t != 'bool' for _, t in prog['preds'][p]['cols'])]
  if not cands:
    return None
  target = rng.choice(cands)
  cols = prog['preds'][target]['cols']
  fields = prog['preds'][target]['fields']
  try:
    n = sum(evaluator.Evaluator(prog).table(target).values())
  except Exception:
    return None
  if n < 2:
    return None
  order = [c for c, _ in cols]
  rng.shuffle(order)
  if rng.random() < 0.2 and len(order) > 1:
    order = order[:-1]            # not a total order: ties are then handled as 'not judged' by the reference
  keys = []
  for c in order:
    r = rng.random()
    if r < 0.45:
      keys.append(c)
    elif r < 0.85:
      keys.append(c + ' desc')
    else:
      keys.extend([c, 'DESC'])
  k = rng.choice([0, 1, 2, n - 1, n, n + 1, 100, None, 1, 2])
  use_order = rng.random() < 0.9
  anns = list(prog['annotations'])
  rules = [dict(r) for r in prog['rules']]
  n_rules = sum(1 for r in rules if r['pred'] == target)
  form = 'annotation'
  if n_rules == 1 and rng.random() < 0.5:
    form = 'denotation'
    den = []
    if use_order:
      den.append('order_by(%s)' % ', '.join('"%s"' % x for x in keys))
    if k is not None:
      den.append('limit(%d)' % k)
    for r in rules:
      if r['pred'] == target:
        r['denotations'] = den
  # the reference reads annotations from prog['annotations'] in both forms
  ref_anns = []
  if use_order:
    ref_anns.append(('OrderBy', target, keys))
  if k is not None:
    ref_anns.append(('Limit', target, k))
  # consumers
  consumers = []
  v = ['cv%d' % j for j in range(len(cols))]
  call_args = tuple((f, ir.V(v[j])) for j, f in enumerate(fields))
  c1 = {'pred': 'ConsCopy', 'args': [(None, ir.V(x), None) for x in v], 'value': None, 'distinct': False,
        'body': ('call', target, call_args)}
  consumers.append(('ConsCopy', c1, {'cols': [('col%d' % j, t) for j, (_, t) in enumerate(cols)], 'fields': [None] * len(cols), 'kind': 'derived'}))
  c2 = {'pred': 'ConsAgg', 'args': [(None, ir.V(v[0]), None), ('n', ir.N(1), '+=')], 'value': None, 'distinct': True,
        'body': ('call', target, call_args)}
  consumers.append(('ConsAgg', c2, {'cols': [('col0', cols[0][1]), ('n', 'int')], 'fields': [None, 'n'], 'kind': 'derived', 'agg': True}))
  # negation: values of the first column of some table of the same type that are not in P's first column
  ext = [p for p in prog['order'] if prog['preds'][p]['kind'] == 'ext' and prog['preds'][p]['cols'][0][1] == cols[0][1]
         and prog['preds'][p]['fields'][0] is None]
  if ext:
    e = rng.choice(ext)
    c3 = {'pred': 'ConsNeg', 'args': [(None, ir.V('nv'), None)], 'value': None, 'distinct': False,
          'body': ('and', (('call', e, ((None, ir.V('nv')),)), ('not', ('call', target, ((fields[0], ir.V('nv')),)))))}
    consumers.append(('ConsNeg', c3, {'cols': [('col0', cols[0][1])], 'fields': [None], 'kind': 'derived'}))
  out = dict(prog)
  out['rules'] = rules + [c for _, c, _ in consumers]
  out['preds'] = dict(prog['preds'])
  out['order'] = list(prog['order'])
  for name, _, meta in consumers:
    out['preds'][name] = meta
    out['order'].append(name)
  text_prog = dict(out, annotations=anns + (ref_anns if form == 'annotation' else []))
  ref_prog = dict(out, annotations=anns + ref_anns)
  return text_prog, ref_prog, target, keys, k, n, form, [c[0] for c in consumers], n_rules, use_order


def ordered_equal(expected_rows, observed_rows, key_idx):
  """Same sequence of order keys, same multiset overall (rows equal on all keys may come in any order)."""
  if len(expected_rows) != len(observed_rows):
    return 'row count %d, expected %d' % (len(observed_rows), len(expected_rows))
  for pos, (e, o) in enumerate(zip(expected_rows, observed_rows)):
    for i in key_idx:
      if compare.norm_value(evaluator.canon(e[i])) != o[i]:
        return 'row %d: order key column %d is %r, expected %r' % (pos, i, o[i], evaluator.canon(e[i]))
  return None


def run_shard(ctx):
  pipeline.mods()
  pipeline.enable_library_memo()
  for i in range(ctx.params['n_programs']):
    run_case(ctx, ctx.rng.randrange(1 << 48), i)


def run_case(ctx, case_seed, i):
  rng = random.Random(case_seed)
  built = build(rng, i)
  if built is None:
    ctx.count('no_target')
    return
  text_prog, ref_prog, target, keys, k, n, form, consumers, n_rules, use_order = built
  text, _ = printer.program_text(text_prog)
  info = {'case_seed': case_seed, 'i': i}
  ctx.journal(dict(info, program=text))
  ctx.count('programs')
  ctx.count(form + '_form')
  if k == 0:
    ctx.count('limit_zero_cases')
  if n_rules == 1:
    ctx.count('single_rule_target')
  rules, bad = pipeline.parse_program(text)
  if bad:
    ctx.violation(None, 'program with order_by/limit rejected at parse: %s' % (bad.message or '')[:300], dict(info, program=text, observed=bad.brief()))
    return
  ev = evaluator.Evaluator(ref_prog)
  for pred in [target] + consumers:
    try:
      res = semantic.check_predicate(ref_prog, text, rules, pred, ev)
    except evaluator.Unsupported as e:
      ctx.note('outside fragment: %s' % e)
      continue
    ctx.count('predicates')
    status = res.status
    detail = res.detail
    if pred != target and status in ('ok', 'mismatch'):
      ctx.count('consumers_checked')
    if pred == target and status == 'ok' and use_order:
      cols = ev.columns(target)
      key_idx = [cols.index(c.split()[0]) for c in keys if c != 'DESC']
      obs = [tuple(compare.decode_observed(v, None) for v in r) for r in res.outcome.rows]
      why = ordered_equal(ev.ordered.get(target, []), obs, key_idx)
      if why:
        status, detail = 'order_wrong', why
    ctx.count(status)
    nontrivial = status == 'ok' and k is not None and k < n and use_order
    ctx.case(stable_hash([text, pred]), nontrivial)
    if status in ('ok', 'discarded'):
      if nontrivial and pred == target and ctx.rng.random() < 0.02:
        ctx.sample({'program': text, 'predicate': pred, 'order_by': keys, 'limit': k, 'rows_without_limit': n, 'rows': res.outcome.rows[:6]})
      continue
    what = {'mismatch': 'rows are not the first K rows in the requested order', 'order_wrong': 'rows are not in the requested order',
            'diagnostic': 'valid program rejected', 'internal': 'internal error instead of rows'}[status]
    key = None
    if k == 0 and status == 'mismatch':
      # recorded mechanism: limit 0 is dropped; confirm by re-evaluating the reference without the limit
      ev2 = evaluator.Evaluator(dict(ref_prog, annotations=[a for a in ref_prog['annotations'] if a[0] != 'Limit']))
      try:
        r2 = semantic.check_predicate(ref_prog, text, rules, pred, ev2, run=lambda *a, **kw: res.outcome)
        if r2.status == 'ok':
          key = 'C18/limit-zero-ignored'
      except evaluator.Unsupported:
        pass
    if key is None and status == 'diagnostic':
      # the order-sensitive elimination defect recorded under C01 (classified only when another conjunct order of the
      # same program compiles and returns the reference rows): not this property's subject
      k2 = semantic.classify_order_sensitive_rejection(ref_prog, res, 'C01', switches=semantic.baseline_switches())
      if k2:
        ctx.count('discarded_c01_elimination_finding')
        continue
    ctx.violation(key, '%s for %s (order_by %s, limit %s): %s' % (what, pred, keys if use_order else None, k, (detail or '')[:300]),
                  semantic.witness(ref_prog, text, res, info))


def finalize(agg, tier):
  out = []
  c = agg['counters']
  for k in ('programs', 'predicates', 'ok', 'limit_zero_cases', 'denotation_form', 'annotation_form', 'consumers_checked', 'single_rule_target'):
    if not c.get(k):
      out.append('mandatory counter %s is zero' % k)
  return out


def replay(w):
  c = semantic.Collector()
  pipeline.mods()
  run_case(c, w['case_seed'], w['i'])
  return c.report()
