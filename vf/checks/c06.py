"""C06 - the C++ and Python parsers accept the same programs and build the same rules."""
import glob
import os
import random
import shutil

from vf.core import repo
from vf.core.shard import stable_hash
from vf.gen import layout, printer, progen, syntaxgen
from vf.mon import pipeline, treecmp
from vf.native import build

ID = 'C06'
LEVEL = 'exploration'
RULE = ('inputs: (a) grammar-directed programs covering every production of docs/syntax.md (imports with/without `as`, rules, functor '
        'applications, annotations, named / positional / aggregating / ..rest fields, distinct, order_by / limit denotations, head assignment '
        'and aggregating assignment, all proposition and expression forms, every operator, the three combine forms, if / else if / else, all '
        'literal forms incl. \'...\' escapes and """...""", subscripts, backticked tables), (b) programs of the semantic generator, (c) the '
        '.l files of integration_tests/, examples/ and tutorial/, (d) layout variants of (a)-(c), (e) single-token corruptions (delete, '
        'duplicate, swap, replace by another token / bracket / quote / keyword); every input is parsed by parse.ParseFile under '
        'LOGICA_PARSER=PY and =CPP (shared object built from the current source; ASan+UBSan build in the thorough tier); one evaluation = one '
        'differential parse; distinct = hash(text); non-trivial = accepted by both with >= 3 statement forms, or a corruption that flips the verdict')
ASSUMPTIONS = ['rejection = ParsingException (the C++ bridge raises a subclass); anything else raised by a parser is an internal error',
               'outside the documented grammar and not generated: 0x10, 1_000, octal / \\N{..} / unknown escapes']
MIN_NONTRIVIAL = 200
REPORT_COUNTERS = ['parses', 'accepted_by_both', 'rejected_by_both', 'trees_equal', 'class_syntaxgen', 'class_progen', 'class_corpus', 'class_layout',
                   'class_corrupt', 'class_imports', 'corrupt_flips_verdict', 'cpp_library_matches_source', 'productions_covered']


def plan(tier, seed):
  flavour = 'asan' if tier == 'thorough' else 'prod'
  return {'nshards': 16, 'timeout_s': 7200 if tier == 'thorough' else 1200,
          'params': {'n_cases': 150 if tier == 'thorough' else 330, 'flavour': flavour}, 'env': build.shard_env(flavour)}


def prepare(tier, seed, out_dir):
  build.ensure('asan' if tier == 'thorough' else 'prod')
  if tier == 'thorough':
    build.ensure_fuzzer()
  return None


FUZZ_DICT = ['":-"', '":="', '"distinct"', '"combine "', '" in "', '" is null"', '"if "', '" then "', '" else "', '"import "', '" as "', '"|"',
             '"||"', '"&&"', '"~"', '"=>"', '"->"', '"?"', '".."', '"@Ground"', '"@Recursive"', '"{"', '"}"', '"["', '"]"', '"("', '")"',
             '"\\""', '"\x27"', '"\"\"\""', '"#"', '"/*"', '"*/"', '"`"', '"+="', '"Max="', '"List{"', '"order_by"', '"limit"', '";"']


def fuzz_native(ctx, scratch):
  """Thorough tier: libFuzzer (ASan+UBSan) on the C ABI, seeded with generated programs. Crash / sanitizer only."""
  import subprocess
  fz = build.ensure_fuzzer()
  if not fz:
    ctx.note('libFuzzer target could not be built')
    return
  corpus = os.path.join(scratch, 'corpus')
  art = os.path.join(scratch, 'artifacts') + os.sep
  os.makedirs(corpus, exist_ok=True)
  os.makedirs(art, exist_ok=True)
  for k in range(40):
    toks, _ = syntaxgen.generate(ctx.rng, max_depth=ctx.rng.choice([1, 2, 3]))
    with open(os.path.join(corpus, 'seed%d' % k), 'w') as f:
      f.write(syntaxgen.render(toks)[:1500])
  with open(os.path.join(scratch, 'dict'), 'w') as f:
    f.write('\n'.join(FUZZ_DICT) + '\n')
  runs = int(ctx.params.get('fuzz_runs', 60000))
  env = dict(os.environ, ASAN_OPTIONS='detect_leaks=0:abort_on_error=1', UBSAN_OPTIONS='halt_on_error=1:print_stacktrace=1')
  env.pop('LD_PRELOAD', None)
  p = subprocess.run([fz, corpus, '-runs=%d' % runs, '-max_len=768', '-seed=%d' % (ctx.rng.randrange(1 << 30) + 1), '-dict=' + os.path.join(scratch, 'dict'),
                      '-artifact_prefix=' + art, '-timeout=120', '-rss_limit_mb=3000', '-print_final_stats=1'],
                     stdout=subprocess.PIPE, stderr=subprocess.STDOUT, env=env, cwd=scratch, timeout=3000)
  out = p.stdout.decode('utf-8', 'replace')
  import re
  m = re.search(r'stat::number_of_executed_units:\s*(\d+)', out)
  ctx.count('fuzz_executions', int(m.group(1)) if m else 0)
  ctx.count('fuzz_shards')
  if p.returncode != 0 and 'libFuzzer: timeout' in out and 'AddressSanitizer' not in out and 'runtime error' not in out:
    # a wall-clock timeout of one input on a loaded machine is not a verdict (inconclusive for that input, noted)
    ctx.count('fuzz_slow_inputs')
    ctx.note('libFuzzer reported a slow input (timeout), not judged: %s' % ' | '.join(l for l in out.splitlines() if 'timeout' in l)[:200])
    return
  if p.returncode != 0:
    crash = None
    for f in sorted(os.listdir(art)):
      with open(os.path.join(art, f), 'rb') as fh:
        crash = fh.read()[:2000]
      break
    summary = [l for l in out.splitlines() if 'ERROR' in l or 'SUMMARY' in l or 'runtime error' in l][:5]
    ctx.violation(classify_native_report(crash or b'', out), 'the C++ parser aborts / a sanitizer reports on a byte-level input (libFuzzer): %s' % ' | '.join(summary)[:400],
                  {'kind': 'fuzz', 'input_repr': repr(crash), 'report': out[-3000:]})


def parse_one(text, mode, import_root=None):
  os.environ['LOGICA_PARSER'] = mode
  try:
    rules, bad = pipeline.parse_program(text, import_root=import_root)
  finally:
    os.environ['LOGICA_PARSER'] = 'PY'
  if bad is None:
    return 'ok', rules, None
  if bad.kind == 'diagnostic' and 'ParsingException' in (bad.exc_type or ''):
    return 'reject', None, bad
  return 'internal', None, bad


def differential(text, import_root=None):
  """Returns (verdict, detail, py_kind, cpp_kind)."""
  pk, pr, pb = parse_one(text, 'PY', import_root)
  ck, cr, cb = parse_one(text, 'CPP', import_root)
  if pk == 'internal' or ck == 'internal':
    who = 'Python' if pk == 'internal' else 'C++'
    b = pb if pk == 'internal' else cb
    return 'internal', '%s parser raised %s: %s (other side: %s)' % (who, b.exc_type, (b.message or '')[:200], ck if pk == 'internal' else pk), pk, ck
  if pk != ck:
    rej = pb if pk == 'reject' else cb
    return 'verdict_differs', 'Python %s, C++ %s: %s' % (pk, ck, (rej.message or '')[:200]), pk, ck
  if pk == 'reject':
    return 'rejected_by_both', None, pk, ck
  a, b = treecmp.plain(pr), treecmp.plain(cr)
  # main-file rules in order; rules of imported files as a multiset
  d = treecmp.first_difference(a, b)
  if d and import_root is not None:
    import json
    sa, sb = sorted(json.dumps(x, sort_keys=True) for x in a), sorted(json.dumps(x, sort_keys=True) for x in b)
    d = None if sa == sb else d
  if d:
    return 'trees_differ', d, pk, ck
  return 'trees_equal', None, pk, ck


_corpus = None


def corpus():
  global _corpus
  if _corpus is None:
    r = repo.repo_root()
    files = sorted(glob.glob(os.path.join(r, 'integration_tests', '*.l')) + glob.glob(os.path.join(r, 'examples', '**', '*.l'), recursive=True)
                   + glob.glob(os.path.join(r, 'tutorial', '**', '*.l'), recursive=True))
    _corpus = files
  return _corpus


def tokens_of_text(text):
  """Crude token stream for corpus files (no boundary typing: only whitespace runs may receive noise)."""
  import re
  parts = re.split(r'(\s+)', text)
  toks = []
  for i, p in enumerate(parts):
    if i % 2 == 0:
      toks.append(p)
    else:
      toks.append(' ' if '\n' not in p else '\n')
  return toks


def run_shard(ctx):
  pipeline.mods()
  lib_path = build.ensure(ctx.params['flavour'])
  build.install(lib_path)
  ctx.count('cpp_library_matches_source', 1 if build.source_hash() in lib_path else 0)
  scratch = repo.scratch_dir('c06')
  cov = {}
  try:
    for i in range(ctx.params['n_cases']):
      run_case(ctx, ctx.rng.randrange(1 << 48), i, scratch, cov)
    if ctx.tier == 'thorough':
      fuzz_native(ctx, scratch)
  finally:
    shutil.rmtree(scratch, ignore_errors=True)
  for k, v in cov.items():
    ctx.table('productions', k, 'hits', v)
  ctx.count('productions_covered', len(cov))


def make_input(rng, i, scratch, cov):
  """Returns (class, text, import_root, description, base_verdict_fn)."""
  k = i % 10
  import_root = None
  if k in (0, 1, 2):
    toks, c = syntaxgen.generate(rng, max_depth=rng.choice([2, 3, 4]))
    for p, n in c.items():
      cov[p] = cov.get(p, 0) + n
    return 'syntaxgen', syntaxgen.render(toks), None, toks
  if k == 3:
    prog = progen.generate(rng, {'agg': 0.4, 'combine': 0.4, 'neg': 0.4, 'argminmax': 0.3})
    pol = printer.Policy(rng=random.Random(rng.randrange(1 << 30)), probs={x: 0.4 for x in printer.Policy.OPTIONS})
    p = printer.Printer(pol)
    p.program(prog)
    return 'progen', syntaxgen.render(p.toks), None, p.toks
  if k == 4:
    files = corpus()
    f = files[rng.randrange(len(files))]
    try:
      text = open(f).read()
    except Exception:
      text = 'P(1);'
    if 'import ' in text:
      import_root = repo.repo_root()
    return 'corpus', text, import_root, None
  if k == 5:
    # imports: small tree written to scratch
    root = os.path.join(scratch, 'imp')
    shutil.rmtree(root, ignore_errors=True)
    os.makedirs(os.path.join(root, 'lib'))
    t1, c1 = syntaxgen.generate(rng, max_depth=2, n_statements=3)
    lib_text = 'Exported(1, 2);\nOther(x) :- Exported(x, y);\n' + syntaxgen.render(t1)
    with open(os.path.join(root, 'lib', 'm.l'), 'w') as f:
      f.write(lib_text)
    imports = [('lib.m', 'Exported', rng.choice([None, 'Ex']))]
    if rng.random() < 0.5:
      imports.append(('lib.m', 'Other', None))
    toks, c = syntaxgen.generate(rng, max_depth=2, n_statements=2, imports=imports)
    for p, n in c.items():
      cov[p] = cov.get(p, 0) + n
    used = '\n'.join('U%d(x) :- %s(x);' % (j, alias or pred) for j, (_, pred, alias) in enumerate(imports))
    return 'imports', syntaxgen.render(toks) + used + '\n', root, None
  if k in (6, 7):
    toks, c = syntaxgen.generate(rng, max_depth=rng.choice([2, 3]))
    text, log = layout.variant(toks, rng, density=0.3, trailing_semicolon=rng.random() < 0.3)
    return 'layout', text, None, None
  toks, c = syntaxgen.generate(rng, max_depth=rng.choice([2, 3])) if k == 8 else (None, None)
  if toks is None:
    prog = progen.generate(rng, {'agg': 0.3, 'combine': 0.3, 'neg': 0.3})
    p = printer.Printer()
    p.program(prog)
    toks = p.toks
  text, desc = layout.corrupt(toks, rng)
  return 'corrupt', text, None, (toks, desc)


def run_case(ctx, case_seed, i, scratch, cov):
  rng = random.Random(case_seed)
  klass, text, import_root, extra = make_input(rng, i, scratch, cov)
  info = {'case_seed': case_seed, 'i': i, 'class': klass}
  ctx.journal(dict(info, text=text))
  verdict, detail, pk, ck = differential(text, import_root)
  ctx.count('parses')
  ctx.count('class_' + klass)
  ctx.count(verdict)
  if verdict in ('trees_equal',):
    ctx.count('accepted_by_both')
  nontrivial = False
  if verdict == 'trees_equal':
    forms = sum(1 for m in (':-', ':=', '@', 'distinct', 'combine', ' in ', '~', '|', '=>', '{', '[') if m in text)
    nontrivial = forms >= 3
  if klass == 'corrupt' and extra is not None:
    base_text = syntaxgen.render(extra[0])
    bk, _, _ = parse_one(base_text, 'PY')
    if verdict in ('trees_equal', 'rejected_by_both') and (bk == 'ok') != (pk == 'ok'):
      ctx.count('corrupt_flips_verdict')
      nontrivial = True
  ctx.case(stable_hash(text), nontrivial)
  if verdict in ('trees_equal', 'rejected_by_both'):
    if nontrivial and ctx.rng.random() < 0.002:
      ctx.sample({'class': klass, 'text': text[:600], 'verdict': verdict})
    return
  what = {'internal': 'a parser failed with an internal error', 'verdict_differs': 'one parser accepts what the other rejects',
          'trees_differ': 'the parsers build different rule trees'}[verdict]
  ctx.violation(classify(text, verdict, detail), '%s (%s input): %s' % (what, klass, detail),
                dict(info, text=text, import_root=bool(import_root), corruption=(extra[1] if klass == 'corrupt' and extra else None)))


def classify(text, verdict, detail):
  """Recorded mechanisms (all: the C++ parser accepts a malformed piece the Python parser rejects)."""
  import re
  if verdict == 'verdict_differs' and detail.startswith('Python reject, C++ ok'):
    if re.search(r'[({,]\s*\|\s*:', text) and 'Could not parse expression of a value' in detail:
      return 'C06/cpp-accepts-bar-as-field-name'
    if re.search(r'[A-Za-z_0-9]\[\s*\]', text) and 'Could not parse expression of a value' in detail:
      return 'C06/cpp-accepts-empty-subscript'
  return None


def classify_native_report(text, report):
  """Recorded mechanism: the C++ parser accepts an empty subscript `x[]` and builds a node without a value; the
  sanitizer build then reports undefined behaviour in std::variant when that node is visited."""
  import re
  if isinstance(text, bytes):
    text = text.decode('utf-8', 'replace')
  if re.search(r'[A-Za-z_0-9]\[\s*\]', text or '') and 'variant' in (report or '') and ('unreachable' in report or 'undefined-behavior' in report):
    return 'C06/cpp-accepts-empty-subscript'
  return None


def classify_abort(case, stderr):
  text = case.get('text') if isinstance(case, dict) else None
  if text is None and isinstance(case, dict):
    text = case.get('base') or case.get('program') or ''
  return classify_native_report(text or '', stderr or '')


def finalize(agg, tier):
  out = []
  c = agg['counters']
  for k in ('parses', 'accepted_by_both', 'rejected_by_both', 'class_syntaxgen', 'class_progen', 'class_corpus', 'class_layout', 'class_corrupt',
            'class_imports', 'corrupt_flips_verdict', 'cpp_library_matches_source'):
    if not c.get(k):
      out.append('mandatory counter %s is zero' % k)
  prods = agg.get('tables', {}).get('productions', {})
  if len(prods) < 60:
    out.append('only %d grammar productions were exercised' % len(prods))
  return out


def replay(w):
  pipeline.mods()
  if w.get('kind') == 'fuzz':
    return True, 'libFuzzer witness (re-run: .build/logica_parse_fuzz_* <file with the input>):\ninput: %s\n%s' % (w.get('input_repr'), w.get('report', '')[-1500:])
  build.install(build.ensure('prod'))
  scratch = repo.scratch_dir('c06r')
  try:
    rng = random.Random(w['case_seed'])
    klass, text, import_root, extra = make_input(rng, w['i'], scratch, {})
    verdict, detail, pk, ck = differential(text, import_root)
  finally:
    shutil.rmtree(scratch, ignore_errors=True)
  return verdict not in ('trees_equal', 'rejected_by_both'), '%s\n---\nverdict: %s %s (PY %s, CPP %s)' % (text, verdict, detail, pk, ck)
