"""Worker for C13: compiles a manifest in this (fresh) process and prints one JSON result per entry.

entry: {'id', 'text', 'predicate', 'import_root'?, 'flags'?, 'history': [entries compiled before, results ignored],
        'reuse': n (number of LogicaProgram instances built from one parsed rules object; also checks that the
        caller-owned rules object is unchanged), 'parser': 'PY'|'CPP'}
"""
import copy
import hashlib
import json
import os
import re
import sys

STOP_FILE = re.compile(r'/tmp/logical_stop_\d+_')


def mask(sql):
  return STOP_FILE.sub('/tmp/logical_stop_<T>_', sql or '')


def plain(x):
  if isinstance(x, dict):
    return {str(k): plain(v) for k, v in x.items()}
  if isinstance(x, (list, tuple)):
    return [plain(v) for v in x]
  if isinstance(x, str):
    return str(x)
  return x


# ---- informational monitors (they decide nothing; they name the state a history dependence would travel through) ----
AUDIT = {'on': False, 'events': []}


def _audit(event, args):
  if not AUDIT['on']:
    return
  try:
    if event == 'open':
      mode = args[1] if len(args) > 1 else None
      if isinstance(mode, str) and any(c in mode for c in 'wax+'):
        AUDIT['events'].append('open-for-write %s' % (args[0],))
    elif event in ('os.putenv', 'os.unsetenv', 'subprocess.Popen', 'socket.connect', 'os.remove', 'os.rename', 'os.mkdir', 'os.system'):
      AUDIT['events'].append('%s %s' % (event, str(args[0])[:80] if args else ''))
  except Exception:
    pass


def snapshot_globals(repo_root):
  """{'module.attr' or 'module.Class.attr': short hash} of the non-callable module-level and class-level state of
  the repository's modules."""
  import types
  out = {}
  for name, mod in list(sys.modules.items()):
    f = getattr(mod, '__file__', None)
    if not f or not f.startswith(repo_root):
      continue
    for k, v in list(vars(mod).items()):
      if k.startswith('__') or isinstance(v, (types.ModuleType, types.FunctionType, types.BuiltinFunctionType)):
        continue
      if isinstance(v, type):
        if getattr(v, '__module__', None) != name:
          continue
        for ck, cv in list(vars(v).items()):
          if ck.startswith('__') or callable(cv) or isinstance(cv, (staticmethod, classmethod, property)):
            continue
          out['%s.%s.%s' % (name, k, ck)] = _h(cv)
        continue
      if callable(v):
        continue
      out['%s.%s' % (name, k)] = _h(v)
  return out


def _h(v):
  try:
    r = repr(v)
  except Exception:
    r = '<unreprable %s>' % type(v).__name__
  if len(r) > 200000:
    r = r[:200000]
  r = re.sub(r' at 0x[0-9a-f]+', '', r)
  return hashlib.sha256(r.encode('utf-8', 'replace')).hexdigest()[:12]


def compile_entry(e, mods, reuse=1, check_rules=False):
  parse, universe = mods['parse'], mods['universe']
  os.environ['LOGICA_PARSER'] = e.get('parser', 'PY')
  out = {'id': e['id']}
  try:
    if e.get('import_root'):
      rules = parse.ParseFile(e['text'], import_root=e['import_root'])['rule']
    else:
      rules = parse.ParseFile(e['text'])['rule']
  except Exception as ex:
    out['error'] = 'parse %s: %s' % (type(ex).__name__, str(ex)[:200])
    return out
  finally:
    os.environ['LOGICA_PARSER'] = 'PY'
  before = plain(rules) if check_rules else None
  sqls = []
  for k in range(reuse):
    try:
      prog = universe.LogicaProgram(rules, user_flags=e.get('flags') or {})
      sql = prog.FormattedPredicateSql(e['predicate'])
      exports = {k2: mask(v) for k2, v in prog.execution.table_to_export_map.items()}
      sqls.append(hashlib.sha256((mask(sql) + json.dumps(exports, sort_keys=True)).encode()).hexdigest()[:20])
      if k == 0:
        out['sql'] = mask(sql)
        out['exports'] = sorted(exports)
    except Exception as ex:
      sqls.append('error %s: %s' % (type(ex).__name__, re.sub(r'\x1b\[[0-9;]*m', '', str(ex))[:160]))
  out['hashes'] = sqls
  if check_rules:
    after = plain(rules)
    out['rules_unchanged'] = (after == before)
    if after != before:
      out['rules_diff'] = first_diff(before, after)
  return out


def first_diff(a, b, path='$'):
  if type(a) != type(b):
    return '%s: %r vs %r' % (path, str(a)[:80], str(b)[:80])
  if isinstance(a, dict):
    for k in sorted(set(a) | set(b)):
      if k not in a or k not in b:
        return '%s: key %s %s' % (path, k, 'added' if k not in a else 'removed')
      d = first_diff(a[k], b[k], path + '.' + k)
      if d:
        return d
    return None
  if isinstance(a, list):
    if len(a) != len(b):
      return '%s: %d vs %d items' % (path, len(a), len(b))
    for i, (x, y) in enumerate(zip(a, b)):
      d = first_diff(x, y, '%s[%d]' % (path, i))
      if d:
        return d
    return None
  return None if a == b else '%s: %r vs %r' % (path, str(a)[:80], str(b)[:80])


def main():
  manifest = json.load(open(sys.argv[1]))
  sys.path.insert(0, manifest['repo'])
  if manifest.get('verif_root'):
    sys.path.append(manifest['verif_root'])
  from parser_py import parse
  from compiler import universe
  mods = {'parse': parse, 'universe': universe}
  if manifest.get('cpp_lib'):
    from vf.native import build
    build.install(manifest['cpp_lib'])
  results = []
  sys.addaudithook(_audit)
  watch = bool(manifest.get('watch_state'))
  for e in manifest['entries']:
    for h in e.get('history', []):
      compile_entry(h, mods)
    before = snapshot_globals(manifest['repo']) if watch else None
    AUDIT['events'] = []
    AUDIT['on'] = True
    try:
      r = compile_entry(e, mods, reuse=e.get('reuse', 1), check_rules=e.get('reuse', 1) > 1)
    finally:
      AUDIT['on'] = False
    if watch:
      after = snapshot_globals(manifest['repo'])
      r['globals_changed'] = sorted(k for k in set(before) | set(after) if before.get(k) != after.get(k))[:40]
    r['side_effects'] = AUDIT['events'][:20]
    results.append(r)
  json.dump(results, open(sys.argv[2], 'w'))


if __name__ == '__main__':
  main()
