"""C01 - compiled SQL returns exactly the multiset the program denotes (core fragment, SQLite)."""
import random

from vf.checks import semantic
from vf.core.shard import stable_hash
from vf.gen import printer, progen, transform
from vf.mon import hooks, pipeline
from vf.ref import evaluator

ID = 'C01'
LEVEL = 'exploration'
RULE = ('programs from the typed generator (core fragment: facts with duplicates, conjunction, nested disjunction, positional / '
        'named / shorthand arguments, + - *, ++, comparisons, assignment, `in` over literals and list columns, list and record '
        'construction, field access, if-then-else, boolean expressions, functional predicates used in expressions, injectible-only '
        'and injectible concrete predicates, named columns written in different orders); one evaluation = one (program, predicate) '
        'compiled by the real pipeline, executed on SQLite and compared (multiset of rows + ordered column names) with the '
        'reference evaluator; distinct = hash of (program text, predicate); non-trivial = non-empty result with a repeated row or '
        '>= 2 rows')
ASSUMPTIONS = ['vf/ref/evaluator.py reads docs/learn/logica.md as listed in DESIGN 4.21', 'SQLite 3.40 is the engine',
               'outside the fragment by construction: / and %, floats, equality between composite values, nesting of composites > 1']
MIN_NONTRIVIAL = 200
REPORT_COUNTERS = ['programs', 'predicates', 'ok', 'mismatch', 'diagnostic', 'internal', 'discarded', 'injections',
                   'union_all_in_sql', 'unmemoized_compiles']

FEATURES = {}


def plan(tier, seed):
  return {'nshards': 16, 'timeout_s': 5400 if tier == 'thorough' else 1200,
          'params': {'n_programs': 1000 if tier == 'thorough' else 140}}


def features_for(i, rng):
  f = dict(FEATURES)
  k = i % 5
  if k == 1:
    f.update({'named_perm': 0.8})
  elif k == 2:
    f.update({'or': 0.9, 'inj': 0.9, 'func': 0.9})
  elif k == 3:
    f.update({'lists': 0.9, 'records': 0.9})
  elif k == 4:
    f.update({'n_der': (5, 8), 'max_facts': 4})
  return f


def classify(prog, res, ev=None):
  """Mechanism key for a failure, if it is one of the recognised ones."""
  if res.status == 'diagnostic':
    return semantic.classify_order_sensitive_rejection(prog, res, 'C01')
  return None


def run_shard(ctx):
  pipeline.mods()
  counters = hooks.install_counters(['RunInjections'])
  n = ctx.params['n_programs']
  for i in range(n):
    case_seed = ctx.rng.randrange(1 << 48)
    if i == 3:
      pipeline.enable_library_memo()
    run_case(ctx, case_seed, i, counters)
  ctx.count('injections', counters.get('injections', 0))
  ctx.count('run_injections_calls', counters.get('RunInjections', 0))


def run_case(ctx, case_seed, i, counters=None, replaying=False):
  rng = random.Random(case_seed)
  feats = features_for(i, rng)
  prog = progen.generate(rng, feats)
  # every second program is printed with minimal parentheses (operator precedence is then the parser's)
  text, _ = printer.program_text(prog, printer.Policy(defaults={'parens': 'min' if i % 2 else 'full'}))
  ctx.journal({'case_seed': case_seed, 'i': i, 'program': text})
  ctx.count('programs')
  if not pipeline._memo['on']:
    ctx.count('unmemoized_compiles')
  for k, v in prog['features'].items():
    ctx.count('feature_' + k, v)
  rules, bad = pipeline.parse_program(text)
  fails = []
  if bad:
    ctx.count('parse_' + bad.kind)
    ctx.violation(None, 'generated valid program rejected at parse: %s' % (bad.message or '')[:300],
                  {'case_seed': case_seed, 'i': i, 'program': text, 'observed': bad.brief()})
    return [('parse', bad)]
  ev = evaluator.Evaluator(prog)
  for pred in semantic.concrete_preds(prog):
    res = semantic.check_predicate(prog, text, rules, pred, ev)
    ctx.count('predicates')
    ctx.count(res.status)
    ctx.case(stable_hash([text, pred]), res.status == 'ok' and res.nontrivial)
    if res.sql and 'UNION ALL' in res.sql:
      ctx.count('union_all_in_sql')
    if res.status in ('ok', 'discarded'):
      if res.status == 'ok' and res.nontrivial and ctx.rng.random() < 0.01:
        ctx.sample({'program': text, 'predicate': pred, 'columns': res.outcome.columns, 'rows': res.outcome.rows[:8]})
      continue
    fails.append((pred, res))
    what = {'mismatch': 'rows differ from the denoted multiset', 'diagnostic': 'valid program rejected',
            'internal': 'internal error instead of rows'}[res.status]
    ctx.violation(classify(prog, res), '%s for predicate %s: %s' % (what, pred, (res.detail or '')[:300]),
                  semantic.witness(prog, text, res, {'case_seed': case_seed, 'i': i}))
  return fails


def finalize(agg, tier):
  out = []
  c = agg['counters']
  for k in ('programs', 'predicates', 'ok', 'injections', 'union_all_in_sql', 'unmemoized_compiles',
            'feature_or', 'feature_fcall', 'feature_inj_call', 'feature_join_var'):
    if not c.get(k):
      out.append('mandatory counter %s is zero' % k)
  return out


def replay(w):
  class Ctx:
    def __getattr__(self, name):
      return lambda *a, **k: None
  ctx = Ctx()
  ctx.rng = random.Random(0)
  lines = []

  class Collect:
    rng = random.Random(0)

    def __init__(self):
      self.v = []

    def journal(self, *a): pass
    def count(self, *a, **k): pass
    def case(self, *a, **k): pass
    def sample(self, *a, **k): pass

    def violation(self, key, what, wit):
      self.v.append((key, what, wit))
  c = Collect()
  pipeline.mods()
  run_case(c, w['case_seed'], w['i'])
  for key, what, wit in c.v:
    lines.append('FAIL %s' % what)
    lines.append(wit.get('program', ''))
    lines.append('expected: %s' % wit.get('expected'))
    lines.append('observed: %s' % wit.get('observed'))
  return bool(c.v), '\n'.join(lines)
