"""C10 - string literals and flag values are data, never SQL."""
import itertools
import json
import random
import re
import sys

from vf.core.shard import stable_hash
from vf.mon import pipeline, sqllex

ID = 'C10'
LEVEL = 'exploration'
RULE = ('strings over an alphabet of every character special to Logica, Python formatting and the eight SQL dialects (\' " \\ ` $ { } % # ; - / * '
        'newline tab CR control characters, non-ASCII BMP and astral): all single characters, all pairs (a sample in quick), random strings of '
        'length 3-12 and crafted injection / formatting payloads; written as "...", \'...\' with escapes or """..."""; positions: fact argument, '
        'list element, record field, both operands of ++, flag default read by FlagValue, user flag (user_flags= and logica.ReadUserFlags argv '
        'parsing); on SQLite the program is executed and the value must come back character for character; for the other seven dialects the '
        'emitted SQL is lexed with that dialect\'s string rules: the literal must decode to the original and the statement must have the token '
        'shape it has for a plain string; flag expansion: defined names only, user over default, nested flags, undefined ${x} rejected or kept, '
        'expansion bounded (<= 101 passes, text <= 64 x input + 1 MB, watched with sys.monitoring); one evaluation = one (string, position, '
        'dialect); distinct = that triple; non-trivial = the string contains a special character')
ASSUMPTIONS = ['lexical rules of the seven non-executable dialects as listed in vf/mon/sqllex.py (DESIGN 3.7)',
               'a value that arrives through ${...} expansion is documented textual parameterisation and may change SQL structure',
               'NUL and lone surrogates are outside the workload']
MIN_NONTRIVIAL = 300
DIALECTS = ['sqlite', 'psql', 'trino', 'presto', 'duckdb', 'clickhouse', 'bigquery', 'databricks']
POSITIONS = ['fact', 'list', 'record', 'concat', 'flag_default', 'user_flag', 'argv_flag']
REPORT_COUNTERS = ['strings', 'sqlite_roundtrips', 'sqlite_ok', 'dialect_literals', 'dialect_ok', 'flag_cases', 'flag_ok', 'expansion_passes_observed',
                   'rejected_undefined_parameter', 'StrLiteral_calls']
SPECIAL = ["'", '"', '\\', '`', '$', '{', '}', '%', '#', ';', '-', '/', '*', '\n', '\t', '\r', '\x01', '\x7f', 'é', '日', '😀', ' ', 'a', ':', '|', '(',
           ')', '[', ']', ',', '~', '?', '=', '@']
CRAFTED = ["'; DROP TABLE x; --", "%s", "%d%%", "{0}", "{left}", "{}", "%(x)s", "\\'", "''", "/* */", "-- c", "a\\", "\\n", "x' OR '1'='1", '"; --',
           "${", "$}{", "$ {a}", "a'b\"c`d\\e", "\\\\", "\\'';", "E'x'", "\\u0041", "''''", "%%s", "#{x}", "{{", "}}", "line1\nline2", "tab\there", "\\x41"]


def plan(tier, seed):
  return {'nshards': 16, 'timeout_s': 5400 if tier == 'thorough' else 1200,
          'params': {'n_pairs': 600 if tier == 'thorough' else 110, 'n_random': 800 if tier == 'thorough' else 110, 'rlimit_as_gb': 3}}


def logica_literal(s, form):
  """Logica source text of the string s in the given literal form, or None if the form cannot express it."""
  if form == 'dq':
    if '"' in s or '\n' in s:
      return None
    return '"%s"' % s
  if form == 'triple':
    if '"""' in s or s.endswith('"') or s.startswith('"'):
      return None
    return '"""%s"""' % s
  out = ["'"]
  for ch in s:
    if ch == '\\':
      out.append('\\\\')
    elif ch == "'":
      out.append("\\'")
    elif ch == '\n':
      out.append('\\n')
    elif ch == '\t':
      out.append('\\t')
    elif ch == '\r':
      out.append('\\r')
    elif ord(ch) < 32 or ord(ch) == 127:
      out.append('\\x%02x' % ord(ch))
    else:
      out.append(ch)
  out.append("'")
  return ''.join(out)


def forms_for(s, rng, all_forms):
  fs = [f for f in ('dq', 'sq', 'triple') if logica_literal(s, f) is not None]
  return fs if all_forms else [rng.choice(fs)]


_ruf = {}


def read_user_flags(rules, argv):
  """logica.ReadUserFlags of the tree under test (logica.py itself cannot be imported as a module outside its
  package: the function is compiled from its source with the names it uses)."""
  if 'fn' not in _ruf:
    import ast
    import getopt
    import os
    from vf.core import repo
    m = pipeline.mods()
    src = open(os.path.join(repo.repo_root(), 'logica.py')).read()
    tree = ast.parse(src)
    fn = next(n for n in tree.body if isinstance(n, ast.FunctionDef) and n.name == 'ReadUserFlags')
    mod = ast.Module(body=[fn], type_ignores=[])
    from common import color
    ns = {'universe': m['universe'], 'getopt': getopt, 'color': color, 'sys': sys}
    exec(compile(mod, 'logica.py', 'exec'), ns)
    _ruf['fn'] = ns['ReadUserFlags']
  return _ruf['fn'](rules, argv)


DOLLAR = re.compile(r'\$\{(.*?)\}', re.S)     # the compiler's own scan also runs across newlines


def install_loopwatch(m):
  """sys.monitoring LINE events on UseFlagsAsParameters: pass count and text size are bounded logically."""
  state = {'passes': 0, 'max_passes': 0, 'calls': 0, 'bound': None}
  code = m['universe'].LogicaProgram.UseFlagsAsParameters.__code__
  mon = sys.monitoring
  tool = mon.DEBUGGER_ID
  try:
    mon.use_tool_id(tool, 'vf-loopwatch')
  except ValueError:
    pass

  class BoundExceeded(Exception):
    pass

  def on_line(c, line):
    if c is not code:
      return mon.DISABLE
    f = sys._getframe(1)
    sql = f.f_locals.get('sql')
    n = f.f_locals.get('num_subs', 0)
    if n > state['max_passes']:
      state['max_passes'] = n
    if isinstance(sql, str) and state['bound'] is not None and len(sql) > state['bound']:
      raise BoundExceeded('expansion text grew to %d characters after %s passes (bound %d)' % (len(sql), n, state['bound']))
    if n > 101:
      raise BoundExceeded('more than 101 expansion passes')
  mon.register_callback(tool, mon.events.LINE, on_line)
  mon.set_local_events(tool, code, mon.events.LINE)
  state['exc'] = BoundExceeded
  return state


def run_shard(ctx):
  m = pipeline.mods()
  pipeline.enable_library_memo()
  watch = install_loopwatch(m)
  # count StrLiteral calls per dialect (reach)
  ql = __import__('compiler.expr_translate', fromlist=['QL']).QL
  orig = ql.StrLiteral
  seen = {}

  def counting(self, literal):
    seen[self.dialect.Name()] = seen.get(self.dialect.Name(), 0) + 1
    return orig(self, literal)
  ql.StrLiteral = counting
  thorough = ctx.tier == 'thorough'
  strings = []
  if ctx.shard == 0 or thorough:
    strings += [c for c in SPECIAL] + CRAFTED
  pairs = [a + b for a in SPECIAL for b in SPECIAL]
  ctx.rng.shuffle(pairs)
  strings += pairs[:ctx.params['n_pairs']]
  for _ in range(ctx.params['n_random']):
    n = ctx.rng.randint(3, 12)
    strings.append(''.join(ctx.rng.choice(SPECIAL + ['a', 'b', 'Z', '0']) for _ in range(n)))
  if thorough:
    strings = [s for i, s in enumerate(strings) if i % ctx.nshards == ctx.shard] if len(strings) > 4000 else strings
  for s in strings:
    run_string(ctx, s, watch, thorough)
  flag_cases(ctx, watch)
  flag_graphs(ctx, watch, 400 if thorough else 40)
  ctx.count('expansion_passes_observed', watch['max_passes'])
  ctx.count('StrLiteral_calls', sum(seen.values()))
  for d, n in seen.items():
    ctx.table('StrLiteral', d, 'calls', n)
  ql.StrLiteral = orig


def expected_after_expansion(s, flags):
  """Documented ${flag} substitution: defined names only, to a fixed point (bounded)."""
  for _ in range(110):
    t = s
    for k, v in flags.items():
      t = t.replace('${%s}' % k, v)
    if t == s:
      return s
    s = t
  return None


def run_string(ctx, s, watch, thorough):
  ctx.count('strings')
  special = any(ch in SPECIAL[:21] for ch in s)
  has_param = bool(DOLLAR.search(s))
  for form in forms_for(s, ctx.rng, thorough):
    lit = logica_literal(s, form)
    positions = POSITIONS if thorough else ctx.rng.sample(POSITIONS, 3)
    for pos in positions:
      flags = None
      argv = None
      if pos == 'fact':
        prog, want = 'T(%s);' % lit, s
      elif pos == 'list':
        prog, want = 'T([%s, "k"]);' % lit, [s, 'k']
      elif pos == 'record':
        prog, want = 'T({a: %s, b: 1});' % lit, {'a': s, 'b': 1}
      elif pos == 'concat':
        prog, want = 'T(%s ++ "|" ++ %s);' % (lit, lit), s + '|' + s
      elif pos == 'flag_default':
        prog, want = '@DefineFlag("f", %s);\nT(FlagValue("f"));' % lit, s
      elif pos == 'user_flag':
        prog, want, flags = '@DefineFlag("f", "dflt");\nT(FlagValue("f"));', s, {'f': s}
      else:
        prog, want, argv = '@DefineFlag("f", "dflt");\nT(FlagValue("f"));', s, ['--f=' + s]
      text = '@Engine("sqlite");\n' + prog + '\n'
      case = {'string': s, 'form': form, 'position': pos, 'program': text, 'flags': flags}
      ctx.journal(case)
      watch['bound'] = 64 * (len(text) + len(s)) + (1 << 20)
      if argv is not None:
        rules, bad = pipeline.parse_program(text)
        try:
          flags = read_user_flags(rules, argv)
        except SystemExit:
          ctx.count('argv_rejected_by_getopt')
          continue
        except Exception as e:
          ctx.violation(None, 'ReadUserFlags fails on %r: %s' % (argv, e), case)
          continue
      out = pipeline.run(text, 'T', user_flags=flags)
      ctx.count('sqlite_roundtrips')
      ctx.table('sqlite_positions', pos, 'special' if special else 'plain')
      ok, why = judge_sqlite(s, want, out, has_param, pos)
      ctx.case(stable_hash([s, form, pos, 'sqlite']), ok and special)
      if ok:
        ctx.count('sqlite_ok')
        if why == 'rejected_undefined_parameter':
          ctx.count('rejected_undefined_parameter')
        if special and ctx.rng.random() < 0.002:
          ctx.sample({'string': s, 'literal': lit, 'position': pos, 'returned': out.rows if out.kind == 'rows' else out.kind})
      else:
        key = None
        if '${' in s and out.kind == 'diagnostic' and 'Parameters' in (out.message or '') and 'undefined' in (out.message or ''):
          # recorded mechanism: `${` inside a literal followed by any `}` later in the rule text is read as a parameter
          key = 'C10/dollar-brace-in-literal-read-as-parameter'
        ctx.violation(key, 'string %r written as %s in position %s does not come back character for character on SQLite: %s' % (s, form, pos, why),
                      dict(case, observed=out.brief()))
    # the other dialects: the emitted literal decodes to the original, the statement keeps its shape
    for d in DIALECTS[1:]:
      prog = '@Engine("%s");\nT(%s);\n' % (d, lit)
      plain = '@Engine("%s");\nT("PLAIN");\n' % d
      watch['bound'] = 64 * len(prog) + (1 << 20)
      o = pipeline.compile_only(prog, 'T')
      ctx.count('dialect_literals')
      ctx.table('dialects', d, 'special' if special else 'plain')
      ok, why = judge_dialect(s, d, o, plain, has_param)
      ctx.case(stable_hash([s, form, 'fact', d]), ok and special)
      if ok:
        ctx.count('dialect_ok')
      else:
        ctx.violation(classify_dialect(s, d, why), 'string %r is not emitted as one well-formed %s literal: %s' % (s, d, why),
                      {'string': s, 'form': form, 'dialect': d, 'program': prog, 'sql': (o.sql or '')[-400:] if o.kind == 'sql' else o.brief()})


_plain_shapes = {}


def judge_dialect(s, d, o, plain_prog, has_param):
  if o.kind == 'diagnostic' and has_param and 'undefined' in (o.message or ''):
    return True, 'rejected_undefined_parameter'
  if o.kind != 'sql':
    return False, 'compilation failed: %s %s' % (o.exc_type, (o.message or '')[:150])
  sql = o.statements[-1]
  try:
    toks = sqllex.lex(sql, d)
  except sqllex.LexError as e:
    return False, 'the emitted SQL does not lex: %s' % e
  if d not in _plain_shapes:
    p = pipeline.compile_only(plain_prog, 'T')
    _plain_shapes[d] = sqllex.shape(sqllex.lex(p.statements[-1], d))
  if s not in sqllex.strings(toks):
    return False, 'no string literal of the statement decodes to the original (decoded: %r)' % (sqllex.strings(toks)[:3],)
  if sqllex.shape(toks) != _plain_shapes[d]:
    return False, 'the statement has another token shape than with a plain string'
  return True, None


def classify_dialect(s, d, why):
  return None


def judge_sqlite(s, want, out, has_param, pos):
  if out.kind == 'diagnostic' and has_param and ('undefined' in (out.message or '') or 'Unspecified' in (out.message or '')):
    return True, 'rejected_undefined_parameter'
  if out.kind != 'rows':
    return False, '%s %s: %s' % (out.kind, out.exc_type, (out.message or '')[:200])
  if len(out.rows) != 1 or len(out.rows[0]) != 1:
    return False, 'rows %r' % (out.rows[:3],)
  got = out.rows[0][0]
  if isinstance(want, (list, dict)):
    try:
      got = json.loads(got)
    except Exception:
      return False, 'value is not JSON: %r' % (got,)
  if got == want:
    return True, None
  return False, 'returned %r' % (got,)


def flag_cases(ctx, watch):
  """Documented ${flag} expansion."""
  E = '@Engine("sqlite");\n'
  cases = [
      ('nested flags resolve', E + '@DefineFlag("a", "${b}");\n@DefineFlag("b", "7");\nT(FlagValue("a"));\n', None, 'rows', '7'),
      ('user value overrides default', E + '@DefineFlag("a", "dflt");\nT(FlagValue("a"));\n', {'a': 'user'}, 'rows', 'user'),
      ('default used without user value', E + '@DefineFlag("a", "dflt");\nT(FlagValue("a"));\n', None, 'rows', 'dflt'),
      ('defined flag expands inside a literal', E + '@DefineFlag("n", "5");\nT("cost ${n} units");\n', None, 'rows', 'cost 5 units'),
      ('user value expands inside a literal', E + '@DefineFlag("n", "5");\nT("cost ${n} units");\n', {'n': '9'}, 'rows', 'cost 9 units'),
      ('undefined name is not expanded', E + '@DefineFlag("n", "5");\nT("cost ${m} units");\n', None, 'reject_or', 'cost ${m} units'),
      ('undefined user flag is rejected', E + '@DefineFlag("n", "5");\nT(FlagValue("n"));\n', {'zz': '1'}, 'diagnostic', None),
      ('user value of a nested flag', E + '@DefineFlag("a", "<${b}>");\n@DefineFlag("b", "7");\nT(FlagValue("a"));\n', {'b': 'x'}, 'rows', '<x>'),
      ('mutually recursive flags terminate', E + '@DefineFlag("a", "${b}");\n@DefineFlag("b", "${a}");\nT(FlagValue("a"));\n', None, 'terminates', None),
      ('self-referential flag is reported', E + '@DefineFlag("a", "x${a}");\nT(FlagValue("a"));\n', None, 'diagnostic', None),
      ('doubling flag terminates within the bound', E + '@DefineFlag("a", "${a}${a}");\nT(FlagValue("a"));\n', None, 'diagnostic', None),
      ('user value with quote through FlagValue', E + '@DefineFlag("a", "d");\nT(FlagValue("a"));\n', {'a': "x' || 'y"}, 'rows', "x' || 'y"),
      ('flag value that looks like a parameter of an undefined name', E + '@DefineFlag("a", "d");\nT(FlagValue("a"));\n', {'a': '${nope}'}, 'rows', '${nope}'),
      ('percent and braces in a flag value', E + '@DefineFlag("a", "d");\nT(FlagValue("a") ++ "%s{0}");\n', {'a': '%d{x}'}, 'rows', '%d{x}%s{0}'),
  ]
  for name, text, flags, kind, want in cases:
    ctx.count('flag_cases')
    ctx.journal({'flag_case': name, 'program': text, 'flags': flags})
    watch['bound'] = 64 * len(text) + (1 << 20)
    out = pipeline.run(text, 'T', user_flags=flags)
    ok = False
    if kind == 'rows':
      ok = out.kind == 'rows' and out.rows == [[want]]
    elif kind == 'diagnostic':
      ok = out.kind == 'diagnostic'
    elif kind == 'terminates':
      ok = out.kind in ('diagnostic', 'rows')
    elif kind == 'reject_or':
      ok = out.kind == 'diagnostic' or (out.kind == 'rows' and out.rows == [[want]])
    ctx.case(stable_hash(['flag', name]), ok)
    if ok:
      ctx.count('flag_ok')
    else:
      key = None
      if name.startswith('doubling') and out.kind in ('internal', 'capped'):
        key = 'C10/flag-expansion/doubling-flag-leaves-bound'
      ctx.violation(key, 'flag expansion: %s: expected %s %r, observed %s' % (name, kind, want, out.brief()),
                    {'flag_case': name, 'program': text, 'flags': flags, 'observed': out.brief()})


FLAG_NAMES = ['a', 'b', 'root', 'dir', 'path', 'n', 'limit', 'zz', 'f1', 'f2']
FLAG_PIECES = ['', '/', 'data', '2024', '.csv', '_', '-', 'x y', '7', 'events', '<', '>', '?']


def flag_graph_case(rng, exhaustive_order=None):
  """A random acyclic flag graph: values mention flags defined anywhere in the program (before or after), some flags are
  unused, some get user values (which may mention flags too). Returns (program text, user flags, {site: expected string})."""
  n = rng.choice([2, 3, 3, 4, 4, 5, 6])
  names = rng.sample(FLAG_NAMES, n)
  # topological rank: a flag may only mention flags of higher rank (acyclic by construction)
  rank = list(names)
  rng.shuffle(rank)
  defaults = {}
  for i, f in enumerate(rank):
    later = rank[i + 1:]
    parts = [rng.choice(FLAG_PIECES)]
    if later and rng.random() < 0.75:
      for _ in range(rng.choice([1, 1, 2])):
        parts.append('${%s}' % rng.choice(later[:2] if rng.random() < 0.7 else later))     # mostly the next ones: long chains
        parts.append(rng.choice(FLAG_PIECES))
    defaults[f] = ''.join(parts)
  user = {}
  for f in names:
    if rng.random() < 0.25:
      later = rank[rank.index(f) + 1:]
      v = rng.choice(FLAG_PIECES) + 'U'
      if later and rng.random() < 0.4:
        v += '${%s}' % rng.choice(later)
      user[f] = v
  order = list(names)
  if exhaustive_order is not None:
    order = [names[i] for i in exhaustive_order if i < len(names)] + [x for j, x in enumerate(names) if j not in exhaustive_order]
  else:
    rng.shuffle(order)
  merged = dict(defaults, **user)
  lines = ['@Engine("sqlite");'] + ['@DefineFlag("%s", "%s");' % (f, defaults[f]) for f in order]
  used = rng.sample(names, rng.choice([1, 1, 2]))
  expected = {}
  for k, f in enumerate(used):
    if rng.random() < 0.5:
      lines.append('T%d(FlagValue("%s"));' % (k, f))
      expected['T%d' % k] = expected_after_expansion(merged[f], merged)
    else:
      lines.append('T%d("pre ${%s} post");' % (k, f))
      expected['T%d' % k] = expected_after_expansion('pre ${%s} post' % f, merged)
  chain = 0
  for f in names:
    d, cur = 0, merged[f]
    while DOLLAR.search(cur) and d < 8:
      t = cur
      for k2, v in merged.items():
        t = t.replace('${%s}' % k2, v, 1) if ('${%s}' % k2) in t else t
      if t == cur:
        break
      cur = t
      d += 1
    chain = max(chain, d)
  return '\n'.join(lines) + '\n', user, expected, {'n_flags': n, 'chain': chain, 'unused': n - len(set(used)), 'user': len(user)}


def flag_graphs(ctx, watch, n_cases):
  """Generated flag graphs against the documented substitution (reference: expected_after_expansion)."""
  import itertools
  perms = list(itertools.permutations(range(4)))
  for i in range(n_cases):
    rng = random.Random(ctx.rng.randrange(1 << 48))
    text, user, expected, feats = flag_graph_case(rng, exhaustive_order=perms[i % len(perms)] if i % 2 else None)
    ctx.journal({'flag_graph': i, 'program': text, 'flags': user})
    watch['bound'] = 64 * len(text) + (1 << 20)
    ctx.count('flag_graph_cases')
    ctx.count('flag_graph_chain_ge3', 1 if feats['chain'] >= 3 else 0)
    ctx.count('flag_graph_with_unused', 1 if feats['unused'] else 0)
    for pred, want in expected.items():
      out = pipeline.run(text, pred, user_flags=dict(user))
      ok = want is not None and out.kind == 'rows' and out.rows == [[want]]
      ctx.case(stable_hash(['flaggraph', text, sorted(user.items()), pred]), ok and feats['chain'] >= 2)
      if ok:
        ctx.count('flag_graph_ok')
      else:
        ctx.violation(None, 'flag expansion of %s: expected %r, observed %s' % (pred, want, out.brief()),
                      {'flag_graph': i, 'program': text, 'flags': user, 'predicate': pred, 'expected': want, 'observed': out.brief()})


def finalize(agg, tier):
  out = []
  c = agg['counters']
  for k in ('strings', 'sqlite_roundtrips', 'sqlite_ok', 'dialect_literals', 'dialect_ok', 'flag_cases', 'flag_ok', 'flag_graph_cases', 'flag_graph_ok',
            'flag_graph_chain_ge3', 'flag_graph_with_unused', 'expansion_passes_observed',
            'StrLiteral_calls'):
    if not c.get(k):
      out.append('mandatory counter %s is zero' % k)
  lits = agg.get('tables', {}).get('StrLiteral', {})
  if len(lits) < 8:
    out.append('StrLiteral was reached for %d of 8 dialects' % len(lits))
  return out


def replay(w):
  m = pipeline.mods()
  watch = install_loopwatch(m)
  watch['bound'] = 1 << 22
  if 'flag_graph' in w:
    out = pipeline.run(w['program'], w['predicate'], user_flags=w.get('flags'))
    bad = not (out.kind == 'rows' and out.rows == [[w['expected']]])
    return bad, 'program:\n%s\nflags: %r\nexpected: %r\nobserved: %s' % (w['program'], w.get('flags'), w['expected'], out.brief())
  if 'flag_case' in w or 'position' in w:
    out = pipeline.run(w['program'], 'T', user_flags=w.get('flags'))
    return True, 'program:\n%s\nflags: %r\nobserved: %s' % (w['program'], w.get('flags'), out.brief())
  o = pipeline.compile_only(w['program'], 'T')
  ok, why = judge_dialect(w['string'], w['dialect'], o, '@Engine("%s");\nT("PLAIN");\n' % w['dialect'], bool(DOLLAR.search(w['string'])))
  return not ok, 'program:\n%s\nsql tail: %s\nverdict: %s' % (w['program'], (o.statements[-1][-300:] if o.kind == 'sql' else o.brief()), why)
