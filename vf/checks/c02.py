"""C02 - aggregation, distinct and negation follow the documented semantics (SQLite)."""
import random

from vf.checks import semantic
from vf.gen import printer, progen
from vf.mon import hooks, pipeline

ID = 'C02'
LEVEL = 'exploration'
RULE = ('programs from the typed generator with predicate-level aggregation (+= Min= Max= Count= List= Set= ArgMin= ArgMax=, several '
        'aggregated columns, multi-body), aggregating expressions correlated with outer variables, combines nested two deep reusing the '
        'same local names in siblings and parent/child, negation of conjunctions and =>; tables forced to contain empty groups, singleton '
        'groups and ties; one evaluation = one (program, predicate) executed on SQLite and compared with the reference multiset (List as '
        'multiset, Set as set, tie choices as one-of); distinct = hash(program text, predicate); non-trivial = non-empty result with >= 2 rows')
ASSUMPTIONS = ['reference evaluator reads docs/learn/logica.md as in DESIGN 4.21 (nulls ignored by aggregates, null when nothing is aggregated, lexical scope of combine variables)',
               'a distinct predicate with no key column and no solution is not judged (SQL gives one row of empty aggregates, the documentation is silent)',
               'SQLite 3.40 is the engine']
MIN_NONTRIVIAL = 150
REPORT_COUNTERS = ['programs', 'predicates', 'ok', 'mismatch', 'explained_by_known_deviation', 'diagnostic', 'internal', 'discarded',
                   'feature_combine', 'feature_nested_combine', 'feature_negation', 'feature_agg_pred', 'feature_multi_body_agg',
                   'DisambiguateCombineVariables', 'ArgMin.step']


def plan(tier, seed):
  return {'nshards': 16, 'timeout_s': 5400 if tier == 'thorough' else 1200,
          'params': {'n_programs': 300 if tier == 'thorough' else 45}}


def features_for(i):
  f = {'agg': 0.5, 'combine': 0.45, 'neg': 0.4, 'argminmax': 0.4, 'n_der': (3, 5), 'max_facts': 5, 'lists': 0.3, 'records': 0.3}
  k = i % 4
  if k == 1:
    f.update({'combine': 0.9, 'neg': 0.1, 'agg': 0.2})
  elif k == 2:
    f.update({'neg': 0.9, 'combine': 0.2})
  elif k == 3:
    f.update({'agg': 0.9, 'argminmax': 0.8, 'argk': 0.7, 'max_facts': 6})
  return f


def run_shard(ctx):
  pipeline.mods()
  counters = hooks.install_counters(['Combines', 'UDF'])
  from vf.mon import udf_contracts
  udf_state = udf_contracts.install()
  allowed = semantic.open_switches('C02')
  n = ctx.params['n_programs']
  for i in range(n):
    case_seed = ctx.rng.randrange(1 << 48)
    if i == 2:
      pipeline.enable_library_memo()
    run_case(ctx, case_seed, i, allowed)
  for k, v in counters.items():
    ctx.count(k, v)
  ctx.count('udf_contract_evaluations', udf_state['evaluations'])


def run_case(ctx, case_seed, i, allowed):
  rng = random.Random(case_seed)
  prog = progen.generate(rng, features_for(i))
  text, _ = printer.program_text(prog)
  semantic.run_program_case(ctx, ID, prog, text, {'case_seed': case_seed, 'i': i}, allowed_switches=allowed)


def finalize(agg, tier):
  out = []
  c = agg['counters']
  for k in ('programs', 'predicates', 'ok', 'feature_combine', 'feature_nested_combine', 'feature_negation', 'feature_agg_pred',
            'feature_multi_body_agg', 'DisambiguateCombineVariables', 'ArgMin.step', 'udf_contract_evaluations'):
    if not c.get(k):
      out.append('mandatory counter %s is zero' % k)
  return out


def replay(w):
  c = semantic.Collector()
  pipeline.mods()
  run_case(c, w['case_seed'], w['i'], semantic.open_switches('C02'))
  return c.report()
