"""Drives exactly the path of `logica.py <file> run <p>` on the code under test and classifies the outcome.

parse.ParseFile(text, import_root)["rule"] -> universe.LogicaProgram(rules, user_flags)
-> FormattedPredicateSql(p) -> execution.preamble / defines_and_exports / main_predicate_sql
-> sqlite3_logica.SqliteConnect() executing them in that order.
"""
import copy
import json
import sqlite3
import traceback

_mods = {}
SQL_TICK_LIMIT = 600   # x 100000 SQLite VM steps (a few seconds): safety net, the case is discarded


def mods():
  if not _mods:
    from vf.core import repo
    repo.setup_path()
    from parser_py import parse
    from compiler import universe, rule_translate, functors, dialects
    from common import sqlite3_logica
    from type_inference.research import infer
    _mods.update(parse=parse, universe=universe, rule_translate=rule_translate, functors=functors,
                 dialects=dialects, sqlite3_logica=sqlite3_logica, infer=infer)
    _mods['diagnostics'] = (parse.ParsingException, rule_translate.RuleCompileException,
                            functors.FunctorError, infer.TypeErrorCaughtException)
  return _mods


class Outcome:
  """kind: 'rows' | 'sql' | 'diagnostic' | 'internal'."""

  def __init__(self, kind, **kw):
    self.kind = kind
    self.columns = kw.get('columns')
    self.rows = kw.get('rows')
    self.sql = kw.get('sql')
    self.exc_type = kw.get('exc_type')
    self.message = kw.get('message')
    self.stage = kw.get('stage')
    self.tb = kw.get('tb')
    self.exc = kw.get('exc')
    self.statements = kw.get('statements')

  def brief(self):
    if self.kind == 'rows':
      return {'kind': 'rows', 'columns': self.columns, 'rows': self.rows[:50]}
    if self.kind == 'sql':
      return {'kind': 'sql', 'sql': self.sql[:2000]}
    return {'kind': self.kind, 'stage': self.stage, 'exc_type': self.exc_type, 'message': (self.message or '')[:1500],
            'tb': (self.tb or '')[-1500:]}


_memo = {'on': False, 'texts': None, 'cache': {}, 'hits': 0, 'orig': None}


def enable_library_memo():
  """Harness-side speed-up: the dialect library text is parsed once per process and deep-copied
  afterwards (LogicaProgram re-parses it on every construction: ~110 ms of ~130 ms).  Only texts that
  are byte-identical to a dialect's LibraryProgram() and parsed without import arguments are served
  from the memo; user programs always go through the real parser."""
  m = mods()
  if _memo['on']:
    return
  parse = m['parse']
  texts = set()
  for name in ['sqlite', 'bigquery', 'psql', 'trino', 'presto', 'duckdb', 'clickhouse', 'databricks']:
    try:
      texts.add(m['dialects'].Get(name).LibraryProgram())
    except Exception:
      pass
  _memo['texts'] = texts
  orig = parse.ParseFile
  _memo['orig'] = orig

  def ParseFile(*args, **kwargs):
    if len(args) == 1 and not kwargs and args[0] in texts:
      key = args[0]
      if key not in _memo['cache']:
        _memo['cache'][key] = orig(key)
      _memo['hits'] += 1
      return copy.deepcopy(_memo['cache'][key])
    return orig(*args, **kwargs)
  parse.ParseFile = ParseFile
  _memo['on'] = True


def disable_library_memo():
  if _memo['on']:
    mods()['parse'].ParseFile = _memo['orig']
    _memo['on'] = False


def parse_program(text, import_root=None):
  m = mods()
  try:
    if import_root is None:
      return m['parse'].ParseFile(text)['rule'], None
    return m['parse'].ParseFile(text, import_root=import_root)['rule'], None
  except m['diagnostics'] as e:
    return None, Outcome('diagnostic', stage='parse', exc_type=type(e).__name__, message=_msg(e), exc=e)
  except RecursionError as e:
    return None, Outcome('internal', stage='parse', exc_type='RecursionError', message=str(e)[:200], tb='')
  except Exception as e:
    return None, Outcome('internal', stage='parse', exc_type=type(e).__name__, message=str(e)[:500],
                         tb=traceback.format_exc()[-3000:], exc=e)


def _msg(e):
  parts = [str(e)]
  for attr in ('rule_str', 'functor_name', 'message'):
    v = getattr(e, attr, None)
    if v:
      parts.append(str(v))
  loc = getattr(e, 'location', None)
  if loc is not None:
    parts.append(str(loc))
    h = getattr(loc, 'heritage', None)
    if h:
      parts.append(str(h))
  return '\n'.join(parts)


def compile_predicate(rules, predicate, user_flags=None):
  """Returns (program, statements, outcome_or_None). statements = [preamble] + defines_and_exports + [main]."""
  m = mods()
  try:
    prog = m['universe'].LogicaProgram(rules, user_flags=user_flags or {})
    formatted = prog.FormattedPredicateSql(predicate)
    ex = prog.execution
    statements = [ex.preamble] + list(ex.defines_and_exports) + [ex.main_predicate_sql]
    return prog, statements, formatted, None
  except m['diagnostics'] as e:
    return None, None, None, Outcome('diagnostic', stage='compile', exc_type=type(e).__name__, message=_msg(e), exc=e)
  except RecursionError as e:
    return None, None, None, Outcome('internal', stage='compile', exc_type='RecursionError', message=str(e)[:200], tb='')
  except MemoryError:
    return None, None, None, Outcome('capped', stage='compile', message='MemoryError under the address-space limit (case discarded)')
  except Exception as e:
    return None, None, None, Outcome('internal', stage='compile', exc_type=type(e).__name__, message=str(e)[:500],
                                     tb=traceback.format_exc()[-3000:], exc=e)


def execute_sqlite(statements, connection=None, probe=None):
  """Executes like sqlite3_logica.RunSqlScript (executescript for all but the last statement)."""
  m = mods()
  con = connection or m['sqlite3_logica'].SqliteConnect()
  if probe is not None:
    probe.attach(con)
  ticks = [0]

  def progress():
    ticks[0] += 1
    return 1 if ticks[0] > SQL_TICK_LIMIT else 0
  con.set_progress_handler(progress, 100000)
  try:
    cur = con.cursor()
    for s in statements[:-1]:
      cur.executescript(s)
    cur.execute(statements[-1])
    rows = cur.fetchall()
    cols = [d[0] for d in cur.description]
    return Outcome('rows', columns=cols, rows=[list(r) for r in rows], statements=statements)
  except MemoryError:
    return Outcome('capped', stage='execute', message='MemoryError under the address-space limit while executing (case discarded)', statements=statements)
  except Exception as e:
    if ticks[0] > SQL_TICK_LIMIT:
      return Outcome('capped', stage='execute', message='query exceeded the step budget (inconclusive case)', statements=statements)
    return Outcome('internal', stage='execute', exc_type=type(e).__name__, message=str(e)[:500],
                   tb=traceback.format_exc()[-2000:], statements=statements, exc=e)
  finally:
    con.set_progress_handler(None, 0)
    if connection is None:
      con.close()


def run(text, predicate, user_flags=None, import_root=None, rules=None, connection=None, probe=None):
  """Full path for one predicate. Returns Outcome (kind rows / diagnostic / internal)."""
  if rules is None:
    rules, bad = parse_program(text, import_root)
    if bad:
      return bad
  prog, statements, formatted, bad = compile_predicate(rules, predicate, user_flags)
  if bad:
    return bad
  out = execute_sqlite(statements, connection=connection, probe=probe)
  out.sql = formatted
  return out


def run_like_logica_py(text, predicate, user_flags=None, import_root=None, rules=None, probe=None):
  """The path of `logica.py <file> run <predicate>` on SQLite, through the repository's own script runner:
  statements = [preamble] + defines_and_exports + [main]  ->  sqlite3_logica.RunSqlScript(statements, 'csv').
  The typed rows are then read by executing preamble + main statement once more on the state the script left (the main
  statement is a SELECT) and must render (sqlite3_logica.Csv) to what the script runner returned."""
  if rules is None:
    rules, bad = parse_program(text, import_root)
    if bad:
      return bad
  prog, statements, formatted, bad = compile_predicate(rules, predicate, user_flags)
  if bad:
    return bad
  sl = mods()['sqlite3_logica']
  orig = sl.SqliteConnect

  ticks = [0]

  def progress():
    ticks[0] += 1
    return 1 if ticks[0] > SQL_TICK_LIMIT else 0

  def connect_and_probe(*a, **k):
    con = orig(*a, **k)
    if probe is not None:
      probe.attach(con)
    con.set_progress_handler(progress, 100000)      # the same step budget as execute_sqlite: a runaway query is a capped case
    return con
  sl.SqliteConnect = connect_and_probe
  try:
    csv_text = sl.RunSqlScript(statements, 'csv')
  except MemoryError:
    return Outcome('capped', stage='execute', message='MemoryError under the address-space limit while executing (case discarded)', statements=statements)
  except Exception as e:
    if ticks[0] > SQL_TICK_LIMIT:
      return Outcome('capped', stage='execute', message='query exceeded the step budget (inconclusive case)', statements=statements)
    return Outcome('internal', stage='execute', exc_type=type(e).__name__, message=str(e)[:500], tb=traceback.format_exc()[-2000:],
                   statements=statements, exc=e)
  finally:
    sl.SqliteConnect = orig
  out = execute_sqlite([statements[0], statements[-1]])
  out.sql = formatted
  out.statements = statements
  if out.kind == 'rows':
    try:
      want = sl.Csv(out.columns, [tuple(r) for r in out.rows])
      out.script_output_matches = sorted(str(csv_text).splitlines()) == sorted(str(want).splitlines())
      out.script_output = str(csv_text)[:600]
    except Exception as e:
      out.script_output_matches = None
  return out


def compile_only(text, predicate, user_flags=None, import_root=None, rules=None):
  if rules is None:
    rules, bad = parse_program(text, import_root)
    if bad:
      return bad
  prog, statements, formatted, bad = compile_predicate(rules, predicate, user_flags)
  if bad:
    return bad
  return Outcome('sql', sql=formatted, statements=statements)


def run_workflow(text, predicates, rules=None, user_flags=None, probe=None, import_root=None, one_program=True, calls=None):
  """The path of tools/run_in_terminal.py (Run / RunMany): one LogicaProgram, FormattedPredicateSql per
  requested predicate, concertina_lib.ExecuteLogicaProgram with the tool's own SqlRunner on SQLite.
  Returns (results {pred: Outcome}, trace [(action name or None, sql, is_final)], executions) or (None, None, Outcome).
  calls: optional list that receives one dict per sql_runner call {sql, is_final, lo, hi, error}; lo:hi is the slice of
  probe.per_statement (SQLite statements observed by the authorizer/trace probe) executed by that call."""
  m = mods()
  from common import concertina_lib
  from tools import run_in_terminal
  if rules is None:
    rules, bad = parse_program(text, import_root)
    if bad:
      return None, None, bad
  trace = []
  try:
    prog = m['universe'].LogicaProgram(rules, user_flags=user_flags or {})
    executions = []
    for p in predicates:
      prog.FormattedPredicateSql(p)
      executions.append(prog.execution)
    runner = run_in_terminal.SqlRunner('sqlite', logic_program=prog)
    if probe is not None:
      probe.attach(runner.connection)
    ticks = [0]

    def progress():
      ticks[0] += 1
      return 1 if ticks[0] > SQL_TICK_LIMIT * 4 else 0
    runner.connection.set_progress_handler(progress, 100000)
    sql_to_name = {}
    for e in executions:
      for name, sql in e.table_to_export_map.items():
        sql_to_name.setdefault(e.PredicateSpecificPreamble(e.main_predicate) + sql, name)
        sql_to_name.setdefault(sql, name)

    def recording_runner(sql, engine, is_final):
      trace.append((sql_to_name.get(sql), sql, is_final))
      if len(trace) > 20000:
        raise RuntimeError('runaway workflow: more than 20000 statements')
      import io
      import contextlib
      rec = {'sql': sql, 'is_final': is_final, 'lo': len(probe.per_statement) if probe is not None else 0, 'hi': None, 'error': None}
      if calls is not None:
        calls.append(rec)
      try:
        with contextlib.redirect_stdout(io.StringIO()):
          return runner(sql, engine, is_final)
      except BaseException as e:
        rec['error'] = '%s: %s' % (type(e).__name__, str(e)[:200])
        raise
      finally:
        rec['hi'] = len(probe.per_statement) if probe is not None else 0
    results = concertina_lib.ExecuteLogicaProgram(executions, recording_runner, 'sqlite', display_mode='silent')
    out = {}
    for p in predicates:
      header, rows = results[p]
      out[p] = Outcome('rows', columns=list(header), rows=[list(r) for r in rows])
    runner.connection.close()
    return out, trace, executions
  except m['diagnostics'] as e:
    return None, trace, Outcome('diagnostic', stage='compile', exc_type=type(e).__name__, message=_msg(e), exc=e)
  except MemoryError:
    return None, trace, Outcome('capped', stage='workflow', message='MemoryError under the address-space limit (case discarded)')
  except Exception as e:
    if 'ticks' in locals() and ticks[0] > SQL_TICK_LIMIT * 4:
      return None, trace, Outcome('capped', stage='execute', message='workflow exceeded the step budget')
    return None, trace, Outcome('internal', stage='workflow', exc_type=type(e).__name__, message=str(e)[:500],
                                tb=traceback.format_exc()[-3000:], exc=e)
