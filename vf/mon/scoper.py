"""Structural well-formedness of emitted SQL (C09): balanced brackets / closed strings (through sqllex), every
`alias.column` refers to an alias introduced by an enclosing FROM, every WITH table is defined before use, no
compiler-internal placeholder leaks.  Deliberately conservative: aliases of UNION branches inside one bracket are
kept apart, correlated references to enclosing queries are allowed."""
import re

from vf.mon import sqllex

FROM_END = {'WHERE', 'GROUP', 'ORDER', 'LIMIT', 'HAVING', 'UNION', 'WINDOW', 'QUALIFY'}
SCHEMAS = {'logica_home', 'logica_test', 'main', 'temp', 'default'}
PLACEHOLDERS = [(re.compile(r'%s|%d|%\('), 'unformatted %-placeholder'), (re.compile(r'\{[0-9]+\}|\{[a-z_]+\}'), 'unformatted {}-placeholder'),
                (re.compile(r'# disambiguated'), 'combine disambiguation marker'), (re.compile(r'UNDEFINED_'), 'UNDEFINED_ marker'),
                (re.compile(r'__rule_text'), '__rule_text'), (re.compile(r'\bValueOfUnnested\s*\('), 'ValueOfUnnested pseudo-function'),
                (re.compile(r'\bContainer\s*\('), 'Container pseudo-function'), (re.compile(r'\bAggr\s*\('), 'Aggr pseudo-function')]


class Block:
  __slots__ = ('parent', 'aliases', 'from_mode', 'start')

  def __init__(self, parent, start):
    self.parent = parent
    self.aliases = set()
    self.from_mode = False
    self.start = start


def check(sql, dialect):
  """Returns a list of problems (empty = well-formed as far as this checker can tell)."""
  problems = []
  try:
    all_toks = sqllex.lex(sql, dialect)
    toks = [t for t in all_toks if t[0] not in ('ws', 'comment')]
  except sqllex.LexError as e:
    return ['does not lex: %s' % e]
  if not sqllex.brackets_balanced(toks):
    problems.append('brackets do not balance')
    return problems
  # placeholders: outside string literals and quoted identifiers
  code = ''.join(("''" if k == 'str' else ('q' if (k == 'ident' and t[:1] in '"`') else t)) for k, t, _ in all_toks if k != 'comment')
  for rx, what in PLACEHOLDERS:
    m = rx.search(code)
    if m:
      # psql / bigquery records use {...}? no: records are built with functions; braces appear only in JSON strings
      problems.append('%s leaked: %r' % (what, code[max(0, m.start() - 30):m.end() + 30]))
  if dialect != 'sqlite' and re.search(r'\bMagicalEntangle\s*\(', code):
    problems.append('MagicalEntangle( outside SQLite')
  # pass 1: blocks, aliases, WITH names
  top = Block(None, 0)
  stack = [top]
  block_at = []
  with_defined = {}      # name -> token index where its definition starts
  uses = []              # (index, alias, block)
  table_uses = []        # (index, name) identifiers used as tables in FROM position
  n = len(toks)
  i = 0
  prev_sig = None
  while i < n:
    k, t, _ = toks[i]
    cur = stack[-1]
    block_at.append(cur)
    up = t.upper() if k == 'ident' else t
    if k == 'op' and t == '(':
      b = Block(cur, i)
      stack.append(b)
    elif k == 'op' and t == ')':
      if len(stack) > 1:
        stack.pop()
    elif k == 'ident' and up == 'UNION':
      # a new branch with the same parent
      if len(stack) > 1:
        stack[-1] = Block(stack[-1].parent, i)
      else:
        stack[-1] = Block(None, i)
        stack[-1].aliases = set()      # top-level union branch
    elif k == 'ident' and up == 'FROM' and not (i + 1 < n and toks[i + 1][1] == '('and False):
      # EXTRACT(x FROM y) / SUBSTRING(.. FROM ..) do not occur in Logica's output; FROM is always a clause here
      cur.from_mode = True
    elif k == 'ident' and up in FROM_END:
      cur.from_mode = False
    elif k == 'ident' and up == 'AS':
      nxt = toks[i + 1] if i + 1 < n else None
      if nxt and nxt[0] == 'ident':
        name = nxt[1].strip('"`')
        if cur.from_mode:
          cur.aliases.add(name)
        # WITH name AS ( ... ): the name precedes AS and a bracket follows
      if i >= 1 and toks[i - 1][0] == 'ident' and nxt and nxt[1] == '(' and not cur.from_mode:
        with_defined.setdefault(toks[i - 1][1].strip('"`'), i - 1)
    elif k == 'ident' and cur.from_mode and i + 1 < n and toks[i + 1][0] == 'ident' and toks[i + 1][1].upper() not in FROM_END | {'AS', 'ON', 'JOIN', 'LEFT', 'INNER', 'CROSS', 'USING'} \
        and (prev_sig in (',', 'FROM', 'JOIN') or (i >= 1 and toks[i - 1][1] == ')')):
      # `table alias` without AS
      cur.aliases.add(toks[i + 1][1].strip('"`'))
    # table names in FROM position
    if k == 'ident' and cur.from_mode and prev_sig in ('FROM', ',', 'JOIN') and up not in ('SELECT', 'LATERAL', 'UNNEST', 'JSON_EACH'):
      if not (i + 1 < n and toks[i + 1][1] == '('):
        table_uses.append((i, t.strip('"`')))
        # a table used without an alias is addressed by its own name (last component of a qualified name)
        j = i
        last = t
        while j + 2 < n and toks[j + 1] == ('op', '.', None) and toks[j + 2][0] == 'ident':
          last = toks[j + 2][1]
          j += 2
        cur.aliases.add(last.strip('"`'))
    # alias.column references
    if k == 'ident' and i + 2 < n and toks[i + 1] == ('op', '.', None) and toks[i + 2][0] == 'ident' and not (i >= 1 and toks[i - 1] == ('op', '.', None)):
      name = t.strip('"`')
      if not (cur.from_mode and prev_sig in ('FROM', ',', 'JOIN')):     # schema.table in a FROM clause
        uses.append((i, name, cur))
    if k == 'ident':
      prev_sig = up if up in ('FROM', 'JOIN') else 'x'
    elif k == 'op' and t == ',':
      prev_sig = ','
    elif k == 'op' and t in '()':
      prev_sig = t
    else:
      prev_sig = 'x'
    i += 1
  # pass 2: resolve references through enclosing blocks
  for idx, name, blk in uses:
    if name in SCHEMAS or name.upper() in ('EXCLUDED', 'NEW', 'OLD'):
      continue
    b = blk
    found = False
    while b is not None:
      if name in b.aliases:
        found = True
        break
      b = b.parent
    if not found:
      problems.append('`%s.%s` refers to no alias of an enclosing FROM' % (name, toks[idx + 2][1]))
  # WITH tables: allocated names t_<n>_<pred> must be defined before they are used
  for idx, name in table_uses:
    if re.match(r't_\d+_', name):
      if name not in with_defined:
        problems.append('WITH table %s is used but never defined' % name)
      elif with_defined[name] > idx:
        problems.append('WITH table %s is used before its definition' % name)
  return problems[:6]
