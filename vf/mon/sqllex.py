"""Dialect-aware SQL lexers (trusted base of C09 / C10): enough of each engine's lexical rules to find and
decode string literals, comments, identifiers, numbers and brackets.

String-literal rules assumed (DESIGN 3.7):
  sqlite, psql, trino, presto : '...'   only '' is an escape, backslash is an ordinary character
  duckdb                       : E'...'  C-style backslash escapes and '';  plain '...' as sqlite
  clickhouse                   : '...'   backslash escapes AND ''
  bigquery, databricks         : "..." and '...' with backslash escapes (\\\\ \\" \\' \\n \\t \\r \\b \\f \\uXXXX \\xHH)
Double-quoted text is an identifier in sqlite / psql / trino / presto / duckdb / clickhouse; backticks quote
identifiers in bigquery / databricks / sqlite / clickhouse.
"""


class LexError(Exception):
  pass


BACKSLASH_DIALECTS = ('clickhouse', 'bigquery', 'databricks')
SIMPLE = {'n': '\n', 't': '\t', 'r': '\r', 'b': '\b', 'f': '\f', '0': '\0', 'a': '\a', 'v': '\v', '\\': '\\', "'": "'", '"': '"', '`': '`', '/': '/'}


def decode_escapes(body, quote, doubled_quote, backslash):
  out = []
  i = 0
  while i < len(body):
    c = body[i]
    if backslash and c == '\\':
      if i + 1 >= len(body):
        raise LexError('dangling backslash')
      n = body[i + 1]
      if n == 'u' and i + 5 < len(body) + 0 and len(body) >= i + 6:
        out.append(chr(int(body[i + 2:i + 6], 16)))
        i += 6
        continue
      if n == 'U' and len(body) >= i + 10:
        out.append(chr(int(body[i + 2:i + 10], 16)))
        i += 10
        continue
      if n == 'x' and len(body) >= i + 4:
        out.append(chr(int(body[i + 2:i + 4], 16)))
        i += 4
        continue
      out.append(SIMPLE.get(n, n))
      i += 2
      continue
    if doubled_quote and c == quote and body[i + 1:i + 2] == quote:
      out.append(quote)
      i += 2
      continue
    out.append(c)
    i += 1
  return ''.join(out)


def lex(sql, dialect):
  """Returns list of (kind, text, value): kind in str ident num op ws comment. Raises LexError."""
  toks = []
  i = 0
  n = len(sql)
  while i < n:
    c = sql[i]
    if c.isspace():
      j = i
      while j < n and sql[j].isspace():
        j += 1
      toks.append(('ws', sql[i:j], None))
      i = j
      continue
    if sql.startswith('--', i):
      j = sql.find('\n', i)
      j = n if j < 0 else j
      toks.append(('comment', sql[i:j], None))
      i = j
      continue
    if sql.startswith('/*', i):
      j = sql.find('*/', i + 2)
      if j < 0:
        raise LexError('unterminated block comment at %d' % i)
      toks.append(('comment', sql[i:j + 2], None))
      i = j + 2
      continue
    if c == '#' and dialect in ('bigquery',):
      j = sql.find('\n', i)
      j = n if j < 0 else j
      toks.append(('comment', sql[i:j], None))
      i = j
      continue
    # string literals
    estr = dialect == 'duckdb' and c in 'Ee' and sql[i + 1:i + 2] == "'"
    if c == "'" or estr or (c == '"' and dialect in ('bigquery', 'databricks')):
      start = i
      if estr:
        i += 1
      q = sql[i]
      backslash = estr or dialect in BACKSLASH_DIALECTS
      doubled = dialect not in ('bigquery', 'databricks')
      j = i + 1
      while True:
        if j >= n:
          raise LexError('unterminated string literal starting at %d: %r' % (start, sql[start:start + 40]))
        ch = sql[j]
        if backslash and ch == '\\':
          j += 2
          continue
        if ch == q:
          if doubled and sql[j + 1:j + 2] == q:
            j += 2
            continue
          break
        if ch == '\n' and dialect in ('bigquery', 'databricks'):
          raise LexError('raw newline inside a %s string literal' % dialect)
        j += 1
      body = sql[i + 1:j]
      toks.append(('str', sql[start:j + 1], decode_escapes(body, q, doubled, backslash)))
      i = j + 1
      continue
    if c == '"' or c == '`':
      j = sql.find(c, i + 1)
      if j < 0:
        raise LexError('unterminated quoted identifier at %d' % i)
      toks.append(('ident', sql[i:j + 1], None))
      i = j + 1
      continue
    if c.isalpha() or c == '_':
      j = i
      while j < n and (sql[j].isalnum() or sql[j] in '_$'):
        j += 1
      toks.append(('ident', sql[i:j], None))
      i = j
      continue
    if c.isdigit():
      j = i
      while j < n and (sql[j].isalnum() or sql[j] == '.'):
        j += 1
      toks.append(('num', sql[i:j], None))
      i = j
      continue
    toks.append(('op', c, None))
    i += 1
  return toks


def shape(toks):
  """Token shape: kinds and texts of everything except whitespace, with string literals reduced to 'str'."""
  return [(k, None if k == 'str' else t) for k, t, _ in toks if k not in ('ws',)]


def strings(toks):
  return [v for k, _, v in toks if k == 'str']


def brackets_balanced(toks):
  stack = []
  pair = {')': '(', ']': '[', '}': '{'}
  for k, t, _ in toks:
    if k != 'op':
      continue
    if t in '([{':
      stack.append(t)
    elif t in ')]}':
      if not stack or stack[-1] != pair[t]:
        return False
      stack.pop()
  return not stack
