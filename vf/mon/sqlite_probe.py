"""SQLite probe: authorizer + trace callbacks on the real connection.

Records, per connection: tables read, created, dropped, inserted into, functions called, statements traced.
The authorizer fires at prepare time of each statement (before its trace line)."""
import sqlite3


class Probe:
  def __init__(self):
    self.read = set()
    self.created = set()
    self.dropped = set()
    self.inserted = set()
    self.functions = {}
    self.statements = []
    self.events = []          # (kind, name) in order
    self.per_statement = []   # list of dict(read=set, created=set, ...) per traced statement
    self._cur = {'read': set(), 'created': set(), 'dropped': set(), 'inserted': set()}

  def attach(self, con):
    con.set_authorizer(self._auth)
    con.set_trace_callback(self._trace)

  def detach(self, con):
    con.set_authorizer(None)
    con.set_trace_callback(None)

  def _auth(self, action, arg1, arg2, dbname, source):
    try:
      if action == sqlite3.SQLITE_READ:
        name = ('%s.%s' % (dbname, arg1)) if dbname and dbname not in ('main', 'temp') else arg1
        if not str(arg1).startswith('sqlite_'):
          self.read.add(name)
          self._cur['read'].add(name)
      elif action == sqlite3.SQLITE_CREATE_TABLE or action == sqlite3.SQLITE_CREATE_TEMP_TABLE:
        name = ('%s.%s' % (dbname, arg1)) if dbname and dbname not in ('main', 'temp') else arg1
        self.created.add(name)
        self._cur['created'].add(name)
        self.events.append(('create', name))
      elif action == sqlite3.SQLITE_DROP_TABLE or action == sqlite3.SQLITE_DROP_TEMP_TABLE:
        name = ('%s.%s' % (dbname, arg1)) if dbname and dbname not in ('main', 'temp') else arg1
        self.dropped.add(name)
        self._cur['dropped'].add(name)
        self.events.append(('drop', name))
      elif action == sqlite3.SQLITE_INSERT:
        if not str(arg1).startswith('sqlite_'):
          name = ('%s.%s' % (dbname, arg1)) if dbname and dbname not in ('main', 'temp') else arg1
          self.inserted.add(name)
          self._cur['inserted'].add(name)
      elif action == sqlite3.SQLITE_FUNCTION:
        self.functions[arg2] = self.functions.get(arg2, 0) + 1
    except Exception:
      pass
    return sqlite3.SQLITE_OK

  def _trace(self, stmt):
    self.statements.append(stmt)
    self.per_statement.append(dict(self._cur, sql=stmt[:200]))
    self._cur = {'read': set(), 'created': set(), 'dropped': set(), 'inserted': set()}
