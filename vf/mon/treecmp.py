"""Structural comparison of parsed rule trees and span checks."""


def is_has(x):
  return isinstance(x, str) and hasattr(x, 'heritage') and hasattr(x, 'start')


HERITAGE_KEYS = ('expression_heritage', 'full_text')


def plain(x, drop_heritage=False):
  """Tree with heritage-aware strings reduced to their text; drop_heritage removes the span-carrying keys."""
  if isinstance(x, dict):
    return {str(k): plain(v, drop_heritage) for k, v in x.items() if not (drop_heritage and k in HERITAGE_KEYS)}
  if isinstance(x, (list, tuple)):
    return [plain(v, drop_heritage) for v in x]
  if isinstance(x, str):
    return str(x)
  return x


def first_difference(a, b, path='$'):
  if type(a) != type(b):
    return '%s: %r vs %r' % (path, _short(a), _short(b))
  if isinstance(a, dict):
    for k in sorted(set(a) | set(b)):
      if k not in a:
        return '%s: key %r only on the right' % (path, k)
      if k not in b:
        return '%s: key %r only on the left' % (path, k)
      d = first_difference(a[k], b[k], '%s.%s' % (path, k))
      if d:
        return d
    return None
  if isinstance(a, list):
    if len(a) != len(b):
      return '%s: %d vs %d items' % (path, len(a), len(b))
    for i, (x, y) in enumerate(zip(a, b)):
      d = first_difference(x, y, '%s[%d]' % (path, i))
      if d:
        return d
    return None
  if a != b:
    return '%s: %r vs %r' % (path, _short(a), _short(b))
  return None


def _short(x):
  s = repr(x)
  return s if len(s) < 120 else s[:117] + '...'


def spans(x, path='$', under_key=None, out=None):
  """All heritage-aware strings in the tree: (path, key, h)."""
  out = [] if out is None else out
  if isinstance(x, dict):
    for k, v in x.items():
      spans(v, '%s.%s' % (path, k), k, out)
  elif isinstance(x, (list, tuple)):
    for i, v in enumerate(x):
      spans(v, '%s[%d]' % (path, i), under_key, out)
  elif is_has(x):
    out.append((path, under_key, x))
  return out


def statement_texts(rules):
  """Texts of all statements the parse kept (full_text of every rule, also nested combine rules)."""
  out = set()
  for path, key, h in spans(rules):
    if key == 'full_text':
      out.add(str(h))
      out.add(str(getattr(h, 'heritage', h)))
  return out


def check_spans(rule, statements=None):
  """Every span attached to a node of this rule is literally the text at that position of the statement it
  points into, and that statement is one of the program's statements."""
  bad = []
  n = 0
  for path, key, h in spans(rule):
    n += 1
    try:
      if h.heritage[h.start:h.stop] != str(h):
        bad.append('%s: heritage[%d:%d] is %r, the span text is %r' % (path, h.start, h.stop, h.heritage[h.start:h.stop][:60], str(h)[:60]))
      elif key in HERITAGE_KEYS and statements is not None and str(h.heritage) not in statements:
        bad.append('%s: the span %r points into %r, which is not a statement of the program' % (path, str(h)[:40], str(h.heritage)[:60]))
    except Exception as e:
      bad.append('%s: span unusable: %s' % (path, e))
  return n, bad
