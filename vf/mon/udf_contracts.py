"""Invariants at a hook on the SQLite aggregate UDFs ArgMin / ArgMax (common/sqlite3_logica.py).

Installed on the classes before a connection registers them, so every `step` that SQLite performs on any group of
any query of the workload is observed.  After each step (icontract post-conditions, named condition functions):

  * bounded:     with a limit K the object keeps at most K (value, arg) pairs;
  * root_is_worst: once K pairs are kept, result[0] holds the worst kept value (largest for ArgMin, smallest for
                 ArgMax) - the structural heap fact `step` relies on for its next comparison;
  * k_best_kept: shadow model - the multiset of kept *values* equals the K best of all non-null values this object
                 has been fed so far (the model keeps every pair; ties may keep either arg).

The conditions record a violation and return True (a raising contract would abort the query it observes); the check
reads `violations` after each execution.  `evaluations` counts post-condition evaluations: zero means the monitor was
never reached and the claim that depends on it is inconclusive.
"""
import functools

state = {'evaluations': 0, 'violations': [], 'installed': False, 'icontract': False}


def _shadow(self):
  s = getattr(self, '_vf_seen', None)
  if s is None:
    s = []
    self._vf_seen = s
  return s


def _make_conditions(smaller_is_better):
  def bounded(self, arg, value, limit):
    state['evaluations'] += 1
    if limit is not None and len(self.result) > limit:
      state['violations'].append(('keeps more than the limit', {'limit': limit, 'kept': list(self.result)[:8]}))
    return True

  def root_is_worst(self, arg, value, limit):
    state['evaluations'] += 1
    if limit is not None and limit > 0 and len(self.result) == limit and self.result:
      vals = [v for v, _ in self.result]
      worst = max(vals) if smaller_is_better else min(vals)
      if self.result[0][0] != worst:
        state['violations'].append(('the root of the bounded heap is not the worst kept value',
                                    {'limit': limit, 'kept': list(self.result)[:8], 'fed': list(_shadow(self))[:12]}))
    return True

  def k_best_kept(self, arg, value, limit):
    state['evaluations'] += 1
    seen = _shadow(self)
    if limit is None or limit <= 0:
      return True
    best = sorted((v for v, _ in seen), reverse=not smaller_is_better)[:limit]
    kept = sorted((v for v, _ in self.result), reverse=not smaller_is_better)
    if len(seen) >= limit and kept != best:
      state['violations'].append(('the kept values are not the K best of the values fed so far',
                                  {'limit': limit, 'kept': kept, 'k_best': best, 'fed_in_order': [v for v, _ in seen][:16]}))
    return True
  return bounded, root_is_worst, k_best_kept


def _instrument(cls, smaller_is_better):
  orig = cls.step
  if getattr(orig, '_vf_contract', False):
    return
  inner = getattr(orig, '_vf_orig', None)      # keep a counting wrapper (hooks.py) outside, contracts inside
  bounded, root_is_worst, k_best_kept = _make_conditions(smaller_is_better)
  target = orig
  try:
    import icontract

    class UdfContractBroken(AssertionError):
      pass
    checked = icontract.ensure(bounded, error=UdfContractBroken)(
        icontract.ensure(root_is_worst, error=UdfContractBroken)(
            icontract.ensure(k_best_kept, error=UdfContractBroken)(target)))
    state['icontract'] = True
  except Exception:
    def checked(self, arg, value, limit):
      r = target(self, arg, value, limit)
      k_best_kept(self, arg, value, limit)
      root_is_worst(self, arg, value, limit)
      bounded(self, arg, value, limit)
      return r

  @functools.wraps(orig)
  def step(self, arg, value, limit):
    if value is not None:
      _shadow(self).append((value, arg))
    return checked(self, arg, value, limit)
  step._vf_contract = True
  step._vf_wrapped = True
  step._vf_orig = orig
  cls.step = step


def install():
  from vf.mon import pipeline
  sl = pipeline.mods()['sqlite3_logica']
  if hasattr(sl, 'ArgMin') and hasattr(sl, 'ArgMax'):
    _instrument(sl.ArgMin, True)
    _instrument(sl.ArgMax, False)
    state['installed'] = True
  return state


def drain():
  """Violations recorded since the last call."""
  v = state['violations']
  state['violations'] = []
  return v
