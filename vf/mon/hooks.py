"""Counting wrappers on mechanisms the properties are anchored in.  They decide nothing: they show
that a workload reached the mechanism.  A name that no longer exists leaves its counter at zero
(=> the check declares itself inconclusive)."""
import functools

from vf.mon import pipeline


def _wrap(owner, attr, counters, key, on_call=None):
  orig = getattr(owner, attr, None)
  if orig is None or getattr(orig, '_vf_wrapped', False):
    return False

  @functools.wraps(orig)
  def wrapper(*a, **k):
    counters[key] = counters.get(key, 0) + 1
    if on_call is not None:
      on_call(a, k)
    return orig(*a, **k)
  wrapper._vf_wrapped = True
  wrapper._vf_orig = orig
  setattr(owner, attr, wrapper)
  return True


def install_counters(names):
  """names: subset of the keys below. Returns the live counters dict."""
  m = pipeline.mods()
  universe = m['universe']
  counters = {}
  if 'RunInjections' in names:
    _wrap(universe.LogicaProgram, 'RunInjections', counters, 'RunInjections')
    _wrap(universe, 'InjectStructure', counters, 'injections')
  if 'Functors' in names:
    functors = m['functors']
    _wrap(functors.Functors, 'CallFunctor', counters, 'CallFunctor')
    _wrap(functors.Functors, 'RecursiveAnalysis', counters, 'RecursiveAnalysis')
    _wrap(functors.Functors, 'UnfoldRecursivePredicate', counters, 'unfold_vertical')
    _wrap(functors.Functors, 'UnfoldRecursivePredicateFlatFashion', counters, 'unfold_flat')
  if 'Combines' in names:
    rt = m['rule_translate']
    _wrap(rt, 'DisambiguateCombineVariables', counters, 'DisambiguateCombineVariables')
  if 'Typecheck' in names:
    infer = m['infer']
    _wrap(infer.TypeErrorChecker, 'CheckForError', counters, 'CheckForError')
    _wrap(infer, 'TypeInferenceForStructure', counters, 'TypeInferenceForStructure')
  if 'UDF' in names:
    sl = m['sqlite3_logica']
    _wrap(sl.ArgMin, 'step', counters, 'ArgMin.step')
    _wrap(sl.ArgMax, 'step', counters, 'ArgMax.step')
    _wrap(sl.DistinctListAgg, 'step', counters, 'DistinctListAgg.step')
  return counters
