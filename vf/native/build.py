"""Builds the C++ parser from the current tree (content-addressed cache) and installs it into the
repository's own ctypes bridge, so that LOGICA_PARSER=CPP goes through ParseRulesJsonNative and
_DecodePooledHeritageOutput of the code under test.

flavours: 'prod' = g++ -O2 (what a user gets), 'asan' = clang++ ASan+UBSan (needs LD_PRELOAD of the
ASan runtime in the process that loads it)."""
import ctypes
import hashlib
import os
import subprocess

from vf.core import repo

BUILD_DIR = os.path.join(repo.VERIF_ROOT, '.build')


def source_path():
  return os.path.join(repo.repo_root(), 'parser_cpp', 'logica_parse.cpp')


def source_hash():
  with open(source_path(), 'rb') as f:
    return hashlib.sha256(f.read()).hexdigest()[:20]


def asan_runtime():
  out = subprocess.run(['clang', '-print-file-name=libclang_rt.asan-x86_64.so'], stdout=subprocess.PIPE, text=True).stdout.strip()
  return out if os.path.exists(out) else None


def so_path(flavour):
  return os.path.join(BUILD_DIR, 'liblogica_parse_%s_%s.so' % (flavour, source_hash()))


def ensure(flavour='prod'):
  """Returns the path of the shared object for the current source, building it if needed."""
  os.makedirs(BUILD_DIR, exist_ok=True)
  path = so_path(flavour)
  if os.path.exists(path):
    return path
  tmp = path + '.tmp.%d' % os.getpid()
  if flavour == 'prod':
    cmd = ['g++', '-std=c++20', '-O2', '-fPIC', '-shared', '-DLOGICA_PARSE_LIBRARY', '-o', tmp, source_path()]
  elif flavour == 'asan':
    cmd = ['clang++', '-std=c++20', '-O1', '-g', '-fPIC', '-shared', '-fsanitize=address,undefined',
           '-fno-sanitize-recover=undefined', '-shared-libasan', '-DLOGICA_PARSE_LIBRARY', '-o', tmp, source_path()]
  else:
    raise ValueError(flavour)
  p = subprocess.run(cmd, stdout=subprocess.PIPE, stderr=subprocess.STDOUT, text=True)
  if p.returncode != 0:
    raise RuntimeError('building the C++ parser failed (%s):\n%s' % (' '.join(cmd), p.stdout[-3000:]))
  os.replace(tmp, path)
  # drop stale builds of other source versions
  for f in os.listdir(BUILD_DIR):
    if f.startswith('liblogica_parse_%s_' % flavour) and f.endswith('.so') and os.path.join(BUILD_DIR, f) != path:
      try:
        os.remove(os.path.join(BUILD_DIR, f))
      except OSError:
        pass
  return path


def ensure_fuzzer():
  """libFuzzer + ASan + UBSan binary of the current parser source (thorough tier of C06). None if it cannot be built."""
  os.makedirs(BUILD_DIR, exist_ok=True)
  path = os.path.join(BUILD_DIR, 'logica_parse_fuzz_%s' % source_hash())
  if os.path.exists(path):
    return path
  target = os.path.join(os.path.dirname(os.path.abspath(__file__)), 'fuzz_target.cc')
  tmp = path + '.tmp.%d' % os.getpid()
  cmd = ['clang++', '-std=c++20', '-O1', '-g', '-fsanitize=fuzzer,address,undefined', '-fno-sanitize-recover=undefined',
         '-DLOGICA_PARSE_LIBRARY', '-o', tmp, target, source_path()]
  p = subprocess.run(cmd, stdout=subprocess.PIPE, stderr=subprocess.STDOUT, text=True)
  if p.returncode != 0:
    return None
  os.replace(tmp, path)
  for f in os.listdir(BUILD_DIR):
    if f.startswith('logica_parse_fuzz_') and os.path.join(BUILD_DIR, f) != path:
      try:
        os.remove(os.path.join(BUILD_DIR, f))
      except OSError:
        pass
  return path


def install(path):
  """Loads the library and hands it to the repository's bridge (same argtypes as LoadCppParserLib)."""
  repo.setup_path()
  from parser_cpp import logica_parse_cpp as bridge
  lib = ctypes.CDLL(path)
  sig = [ctypes.c_char_p, ctypes.c_char_p, ctypes.c_char_p, ctypes.c_int,
         ctypes.POINTER(ctypes.c_void_p), ctypes.POINTER(ctypes.c_void_p)]
  lib.logica_cpp_parse_rules_json.argtypes = sig
  lib.logica_cpp_parse_rules_json.restype = ctypes.c_int
  pooled = getattr(lib, 'logica_cpp_parse_rules_json_pooled', None)
  if pooled is not None:
    pooled.argtypes = sig
    pooled.restype = ctypes.c_int
  lib.logica_cpp_free.argtypes = [ctypes.c_void_p]
  lib.logica_cpp_free.restype = None
  bridge._LIB = lib
  return lib


def shard_env(flavour):
  """Environment for shard processes that load the given flavour."""
  if flavour != 'asan':
    return {}
  rt = asan_runtime()
  if not rt:
    return {}
  return {'LD_PRELOAD': rt, 'ASAN_OPTIONS': 'detect_leaks=0:halt_on_error=1:abort_on_error=1:allocator_may_return_null=1',
          'UBSAN_OPTIONS': 'halt_on_error=1:abort_on_error=1:print_stacktrace=1'}
