// libFuzzer target for the C ABI of parser_cpp/logica_parse.cpp (C06 thorough tier, crash / sanitizer reports only:
// byte-level inputs are outside the documented grammar, so no differential verdict is drawn from them).
#include <cstddef>
#include <cstdint>
#include <string>
extern "C" int logica_cpp_parse_rules_json(const char*, const char*, const char*, int, void**, void**);
extern "C" int logica_cpp_parse_rules_json_pooled(const char*, const char*, const char*, int, void**, void**);
extern "C" void logica_cpp_free(void*);
extern "C" int LLVMFuzzerTestOneInput(const uint8_t* data, size_t size) {
  std::string s(reinterpret_cast<const char*>(data), size);
  for (int pooled = 0; pooled < 2; ++pooled) {
    void* out = nullptr;
    void* err = nullptr;
    if (pooled) {
      logica_cpp_parse_rules_json_pooled(s.c_str(), "main", "", 1, &out, &err);
    } else {
      logica_cpp_parse_rules_json(s.c_str(), "main", "", 1, &out, &err);
    }
    if (out) logica_cpp_free(out);
    if (err) logica_cpp_free(err);
  }
  return 0;
}
