"""Typed generator of well-formed, range-restricted Logica programs (IR of vf/gen/ir.py).

A program is grown bottom-up: extensional tables (facts, with duplicates), then derived predicates that
only call earlier ones (recursion / functors / imports are added by their own generators on top).
The generator tracks the set of bound variables while it grows a body, so every rule is valid by
construction; literals are shuffled afterwards.
"""
from vf.gen import ir

INT_POOL = [0, 1, 2, 3, 4, 1, 2, 3, 5, 7, 9, -1, -3]
STR_POOL = ['a', 'b', 'c', 'ab', 'ba', 'x y', 'Zz', '']
EXT_NAMES = ['T', 'U', 'R', 'S', 'Edge', 'Item', 'Tab']
DER_NAMES = ['P', 'Q', 'A', 'B', 'C', 'D', 'Pa', 'Pb', 'Mid', 'Out', 'Zed', 'Aa']
FUN_NAMES = ['F', 'G', 'H', 'Fa']
INJ_NAMES = ['Inj', 'Twice', 'Shift']
FIELD_NAMES = ['a', 'b', 'k', 'v', 'name', 'w']
VAR_NAMES = ['x', 'y', 'z', 'u', 'v', 'w', 'p', 'q', 's', 't', 'n', 'm', 'a', 'b', 'k', 'x0', 'x1', 'zz']

DEFAULT_FEATURES = {
    'lists': 0.5, 'records': 0.5, 'inj': 0.5, 'func': 0.6, 'or': 0.5, 'if': 0.4, 'bool_cols': 0.2,
    'agg': 0.0, 'combine': 0.0, 'neg': 0.0, 'named_perm': 0.0, 'nulls': 0.0, 'strings': 0.7,
    'n_ext': (2, 4), 'n_der': (3, 6), 'max_facts': 6, 'typed': False, 'argminmax': 0.0, 'argk': 0.0,
}


class Gen:
  def __init__(self, rng, features=None):
    self.rng = rng
    self.f = dict(DEFAULT_FEATURES)
    if features:
      self.f.update(features)
    self.preds = {}     # name -> meta
    self.order = []
    self.rules = []
    self.used_features = {}
    self._reserved = set()
    self._reserved_rule_level = set()
    self._taken = set()
    self._call_bound = set()
    self.k_aggs_used = set()

  # -- small helpers -----------------------------------------------------------------------------
  def p(self, name):
    v = self.f.get(name, 0.0)
    return self.rng.random() < v

  def mark(self, feat, k=1):
    self.used_features[feat] = self.used_features.get(feat, 0) + k

  def const(self, t):
    r = self.rng
    if t == 'int':
      return ir.N(r.choice(INT_POOL))
    if t == 'str':
      return ir.S(r.choice(STR_POOL))
    if t == 'bool':
      return ('bool', r.random() < 0.5)
    if t[0] == 'list':
      sizes = [1, 2, 2, 3] if self.f.get('typed') else [0, 1, 2, 2, 3]     # an empty list literal has no ground element type
      return ('list', tuple(self.const(t[1]) for _ in range(r.choice(sizes))))
    if t[0] == 'rec':
      return ('rec', tuple((f, self.const(ft)) for f, ft in t[1]))
    raise ValueError(t)

  def scalar_type(self):
    if self.p('strings') and self.rng.random() < 0.35:
      return 'str'
    return 'int'

  def col_type(self, allow_composite=True):
    r = self.rng.random()
    if allow_composite and self.p('lists') and r < 0.15:
      return ('list', self.scalar_type())
    if allow_composite and self.p('records') and r < 0.3:
      fs = self.rng.sample(FIELD_NAMES, self.rng.choice([1, 2, 2]))
      return ('rec', tuple((f, self.scalar_type()) for f in sorted(fs)))
    if self.p('bool_cols') and r > 0.93:
      return 'bool'
    return self.scalar_type()

  def fresh_name(self, pool, prefix):
    for n in self.rng.sample(pool, len(pool)):
      if n not in self.preds:
        return n
    i = 0
    while '%s%d' % (prefix, i) in self.preds:
      i += 1
    return '%s%d' % (prefix, i)

  def columns_spec(self, arity, allow_composite=True):
    """[(colname, field (int|str), type)] - positional first, then named."""
    n_named = 0
    if self.rng.random() < 0.4:
      n_named = self.rng.randint(1, arity)
    n_pos = arity - n_named
    names = self.rng.sample(FIELD_NAMES, n_named)
    cols = []
    for i in range(n_pos):
      cols.append(('col%d' % i, None, self.col_type(allow_composite)))
    for n in names:
      cols.append((n, n, self.col_type(allow_composite)))
    return cols

  # -- extensional predicates ----------------------------------------------------------------
  def gen_ext(self):
    name = self.fresh_name(EXT_NAMES, 'E')
    arity = self.rng.choice([1, 2, 2, 2, 3])
    cols = self.columns_spec(arity)
    n = self.rng.randint(1, self.f['max_facts'])
    if self.rng.random() < 0.05:
      n = 1
    rows = []
    for _ in range(n):
      if rows and self.rng.random() < 0.3:
        rows.append(self.rng.choice(rows))      # duplicate row
      else:
        rows.append([self.const(t) for _, _, t in cols])
    perm_named = self.p('named_perm') and sum(1 for c in cols if c[1] is not None) >= 2
    for row in rows:
      args = [(f, e, None) for (_, f, _), e in zip(cols, row)]
      if perm_named and self.rng.random() < 0.5:
        pos = [a for a in args if a[0] is None]
        named = [a for a in args if a[0] is not None]
        self.rng.shuffle(named)
        args = pos + named
        self.mark('named_perm')
      self.rules.append({'pred': name, 'args': args, 'value': None, 'distinct': False, 'body': None})
    self.preds[name] = {'cols': [(c, t) for c, _, t in cols], 'kind': 'ext', 'fields': [f for _, f, _ in cols]}
    self.order.append(name)
    return name

  def gen_fun_facts(self):
    """A functional predicate given by facts, deliberately with several values (and repeated rows) per argument:
    `F(1) = 10; F(1) = 20; F(2) = 30; F(2) = 30;`"""
    r = self.rng
    name = self.fresh_name(FUN_NAMES, 'Fn')
    kt, vt = self.scalar_type(), self.scalar_type()
    keys = [self.const(kt) for _ in range(r.choice([1, 2, 2, 3]))]
    rows = []
    for _ in range(r.randint(2, max(2, self.f['max_facts']))):
      if rows and r.random() < 0.25:
        rows.append(r.choice(rows))
      else:
        rows.append((r.choice(keys), self.const(vt)))
    for k, v in rows:
      self.rules.append({'pred': name, 'args': [(None, k, None)], 'value': (v, None), 'distinct': False, 'body': None})
    self.preds[name] = {'cols': [('col0', kt), ('logica_value', vt)], 'kind': 'fun', 'fields': [None, 'logica_value'],
                        'value_type': vt, 'facts': True, 'keys': keys}
    self.order.append(name)
    self.mark('fun_facts')
    return name

  # -- expressions ---------------------------------------------------------------------------
  def vars_of_type(self, bound, t):
    return [v for v, vt in bound.items() if vt == t]

  def gen_expr(self, t, bound, depth=2, allow_fcall=True):
    r = self.rng
    vs = self.vars_of_type(bound, t)
    if t == 'int':
      x = r.random()
      if depth > 0 and allow_fcall and self.f.get('fcall_boost') and r.random() < self.f['fcall_boost'] and self.p('func'):
        e = self.gen_fcall('int', bound, depth)
        if e is not None:
          if r.random() < 0.4:
            self.mark('fcall_repeat')
            return ('bin', r.choice(['+', '-', '*']), e, e)
          return e
      if depth <= 0 or x < 0.35:
        if vs and r.random() < 0.8:
          return ir.V(r.choice(vs))
        rec_vars = [(v, vt) for v, vt in bound.items() if isinstance(vt, tuple) and vt[0] == 'rec' and any(ft == 'int' for _, ft in vt[1])]
        if rec_vars and r.random() < 0.5:
          v, vt = r.choice(rec_vars)
          self.mark('field_access')
          return ('field', ir.V(v), r.choice([f for f, ft in vt[1] if ft == 'int']))
        return self.const('int')
      if 0.66 <= x < 0.7:
        # unary minus, sometimes of something that itself starts with a minus sign
        self.mark('unary_minus')
        y = r.random()
        if y < 0.25:
          inner = ('neg', self.gen_expr('int', bound, depth - 1, allow_fcall))
        elif y < 0.4:
          inner = ir.N(r.choice([-1, -2, -3]))
        else:
          inner = self.gen_expr('int', bound, depth - 1, allow_fcall)
        return ('neg', inner)
      if x < 0.7:
        op = r.choice(['+', '+', '-', '*'])
        self.mark('arith')
        a = self.gen_expr('int', bound, depth - 1, allow_fcall)
        b = self.gen_expr('int', bound, depth - 1, allow_fcall) if op != '*' else r.choice([ir.N(2), ir.N(3), ir.N(-1), self.gen_expr('int', bound, 0, False)])
        return ('bin', op, a, b)
      if x < 0.8 and self.p('if'):
        self.mark('if')
        return ('if', self.gen_cond(bound, depth - 1), self.gen_expr('int', bound, depth - 1, allow_fcall),
                self.gen_expr('int', bound, depth - 1, allow_fcall))
      if (x < 0.95 or self.f.get('fcall_boost')) and allow_fcall and self.p('func'):
        e = self.gen_fcall('int', bound, depth)
        if e is not None:
          if r.random() < 0.3:
            # the same call text twice in one expression: two independent conjuncts (docs, "Functional notation")
            self.mark('fcall_repeat')
            return ('bin', r.choice(['+', '-', '*']), e, e)
          return e
      return self.gen_expr('int', bound, 0, allow_fcall)
    if t == 'str':
      x = r.random()
      if depth <= 0 or x < 0.5:
        if vs and r.random() < 0.8:
          return ir.V(r.choice(vs))
        return self.const('str')
      if x < 0.85:
        self.mark('concat')
        return ('bin', '++', self.gen_expr('str', bound, depth - 1, allow_fcall), self.gen_expr('str', bound, depth - 1, allow_fcall))
      if self.p('if'):
        self.mark('if')
        return ('if', self.gen_cond(bound, depth - 1), self.gen_expr('str', bound, depth - 1, allow_fcall),
                self.gen_expr('str', bound, depth - 1, allow_fcall))
      if allow_fcall and self.p('func'):
        e = self.gen_fcall('str', bound, depth)
        if e is not None:
          return e
      return self.gen_expr('str', bound, 0, allow_fcall)
    if t == 'bool':
      if vs and r.random() < 0.3:
        return ir.V(r.choice(vs))
      return self.gen_cond(bound, depth)
    if t[0] == 'list':
      if vs and r.random() < 0.6:
        return ir.V(r.choice(vs))
      self.mark('list_literal')
      inner_calls = allow_fcall and r.random() < 0.5       # predicate calls inside a list literal
      return ('list', tuple(self.gen_expr(t[1], bound, min(depth - 1, 1), inner_calls) for _ in range(r.choice([1, 2, 2, 3]))))
    if t[0] == 'rec':
      if vs and r.random() < 0.6:
        return ir.V(r.choice(vs))
      self.mark('record_literal')
      inner_calls = allow_fcall and r.random() < 0.5
      return ('rec', tuple((f, self.gen_expr(ft, bound, min(depth - 1, 1), inner_calls)) for f, ft in t[1]))
    raise ValueError(t)

  def gen_cond(self, bound, depth=1):
    """A boolean expression over bound scalars."""
    r = self.rng
    x = r.random()
    if depth > 0 and x < 0.2:
      self.mark('bool_op')
      return ('bin', r.choice(['&&', '||']), self.gen_cond(bound, depth - 1), self.gen_cond(bound, depth - 1))
    if depth > 0 and x < 0.27:
      self.mark('bool_op')
      return ('not_e', self.gen_cond(bound, depth - 1))
    t = 'int' if (r.random() < 0.75 or not self.vars_of_type(bound, 'str')) else 'str'
    op = r.choice(['==', '!=', '<', '<=', '>', '>='])
    return ('cmpe', op, self.gen_expr(t, bound, min(depth, 1), False), self.gen_expr(t, bound, 0, False))

  def gen_fcall(self, t, bound, depth):
    cands = [n for n in self.order if self.preds[n].get('value_type') == t and self.preds[n]['kind'] in ('fun',)]
    cands += [n for n in self.order if self.preds[n].get('value_type') == t and self.preds[n]['kind'] == 'inj'
              and not isinstance(self.preds[n]['cols'][0][1], tuple)]
    if not cands:
      return None
    again = [e for (e, tt, vs) in getattr(self, '_fcalls', []) if tt == t and all(bound.get(v) == vt for v, vt in vs.items())]
    if again and self.rng.random() < 0.4:
      self.mark('fcall_repeat')
      self.mark('fcall')
      return self.rng.choice(again)
    fname = self.rng.choice(cands)
    facts = [n for n in cands if self.preds[n].get('facts')]
    if facts and self.rng.random() < 0.5:
      fname = self.rng.choice(facts)      # several values per argument: every occurrence of the call multiplies
    meta = self.preds[fname]
    args = []
    for (c, ct), f in zip(meta['cols'], meta['fields']):
      if c == 'logica_value':
        continue
      if isinstance(ct, tuple):
        return None
      if meta.get('keys') and self.rng.random() < 0.6:
        args.append((f, self.rng.choice(meta['keys'])))
        continue
      args.append((f, self.gen_expr(ct, bound, min(depth - 1, 1), False)))
    self.mark('fcall')
    e = ('fcall', fname, tuple(args))
    if not hasattr(self, '_fcalls'):
      self._fcalls = []
    vs = ir.expr_vars(e)
    self._fcalls.append((e, t, {v: bound[v] for v in vs if v in bound}))
    if meta['kind'] == 'inj':
      self.mark('inj_comb_call')
    return e

  # -- bodies --------------------------------------------------------------------------------
  def fresh_var(self, bound, hint=None):
    taken = set(bound) | self._taken | self._reserved | self._reserved_rule_level
    cands = [v for v in VAR_NAMES if v not in taken]
    if hint and hint not in taken and self.rng.random() < 0.5:
      v = hint
    elif cands:
      v = self.rng.choice(cands)
    else:
      i = 0
      while 'v%d' % i in taken:
        i += 1
      v = 'v%d' % i
    self._taken.add(v)
    return v

  def callable_preds(self, exclude=()):
    pool = getattr(self, 'call_pool', None)
    return [n for n in self.order if self.preds[n]['kind'] in ('ext', 'derived', 'fun', 'agg') and n not in exclude
            and (pool is None or n in pool)]

  def gen_call(self, bound, pred=None, must_bind=False, exclude=()):
    """Positive call; binds fresh variables for some columns, joins / selects on others.
    Returns literal; updates bound."""
    r = self.rng
    name = pred or r.choice(self.callable_preds(exclude))
    meta = self.preds[name]
    cols = list(zip(meta['cols'], meta['fields']))
    # optionally project away a trailing part of the columns (only named ones can be skipped freely)
    args = []
    new = {}
    for (c, ct), f in cols:
      if c == 'logica_value' and r.random() < 0.6:
        continue
      if f is not None and r.random() < 0.15 and len(cols) > 1:
        continue    # named column not mentioned
      x = r.random()
      same = [v for v, vt in list(bound.items()) + list(new.items()) if vt == ct]
      scalar = not isinstance(ct, tuple)
      if scalar and same and x < 0.35:
        e = ir.V(r.choice(same))        # join on / repeat of a variable
        self.mark('join_var')
      elif scalar and x < 0.45 and ct != 'bool':
        e = self.const(ct)              # constant in a join position
        self.mark('const_arg')
      elif scalar and x < 0.5 and same and ct == 'int':
        e = ('bin', '+', ir.V(r.choice(same)), ir.N(1))
        self.mark('expr_arg')
      else:
        v = self.fresh_var(dict(bound, **new), hint=f if isinstance(f, str) else None)
        new[v] = ct
        e = ir.V(v)
      args.append((f if f is not None else (None if c != 'logica_value' else 'logica_value'), e))
    # positional args must form a prefix without holes: columns are positional-first, and we never skip them
    if c_is_value_only(args):
      pass
    bound.update(new)
    self._call_bound.update(new)
    return ('call', name, tuple(args))

  def gen_filter(self, bound):
    """A literal that binds nothing: comparison, negation-free."""
    r = self.rng
    ints = self.vars_of_type(bound, 'int')
    strs = self.vars_of_type(bound, 'str')
    if (ints or strs) and self.p('lists') and r.random() < self.f.get('in_filter_rate', 0.12):
      # `in` with an already bound left side is a filter (a repeated element repeats the solution)
      t = 'int' if (ints and (not strs or r.random() < 0.7)) else 'str'
      self.mark('in_filter')
      # both the tested variable and the variables in the list come straight from table columns: a list that
      # depends on the tested variable (directly or through assignments) is (rightly) reported as circular
      cb = [x for x in (ints if t == 'int' else strs) if x in self._call_bound]
      if cb:
        v = r.choice(cb)
        others = {k: vt for k, vt in bound.items() if k != v and k in self._call_bound}
        lhs = ir.V(v)
        if r.random() < 0.4:
          # a computed element: still one solution per matching list element
          self.mark('in_filter_computed')
          lhs = (('bin', r.choice(['+', '-', '*']), ir.V(v), ir.N(r.choice([1, 2]))) if t == 'int'
                 else ('bin', '++', ir.V(v), ir.S(r.choice(['', 'a', 'b']))))
        items = [self.gen_expr(t, others, 1, False) for _ in range(r.choice([1, 2, 3]))]
        if r.random() < 0.4:
          self.mark('in_repeated_element')
          items.insert(r.randrange(len(items) + 1), r.choice(items))
        return ('in', lhs, ('list', tuple(items)))
    if strs and r.random() < 0.25:
      return ('cmp', r.choice(['==', '!=', '<', '>=']), ir.V(r.choice(strs)), self.gen_expr('str', bound, 1, False))
    if ints:
      return ('cmp', r.choice(['==', '!=', '<', '<=', '>', '>=']), self.gen_expr('int', bound, 1, False), self.gen_expr('int', bound, 1))
    bools = self.vars_of_type(bound, 'bool')
    if bools:
      return ('cmp', '==', ir.V(r.choice(bools)), ('bool', True))
    return ('cmp', '==', ir.N(1), ir.N(1))

  def gen_binder(self, bound):
    """A literal that binds one new variable from bound ones: assignment, `in`, injectible call."""
    r = self.rng
    x = r.random()
    t = self.scalar_type()
    headed = [n for n in self.order if self.preds[n].get('combine_headed')]
    if headed and r.random() < 0.35:
      # value of a body-less predicate whose head is an aggregating expression (injected into this rule)
      name = r.choice(headed)
      meta = self.preds[name]
      v = self.fresh_var(bound)
      if meta['kind'] == 'inj':
        kt = meta['cols'][0][1]
        vs = self.vars_of_type(bound, kt)
        arg = ir.V(r.choice(vs)) if vs and r.random() < 0.8 else self.gen_expr(kt, bound, 1, False)
        e = ('fcall', name, ((None, arg),))
      else:
        e = ('fcall', name, ())
      bound[v] = meta['value_type']
      self.mark('combine_headed_call')
      return ('cmp', '==', ir.V(v), e)
    lists = [(v, vt) for v, vt in bound.items() if isinstance(vt, tuple) and vt[0] == 'list']
    if lists and x < 0.3:
      lv, lt = r.choice(lists)
      v = self.fresh_var(bound)
      bound[v] = lt[1]
      self.mark('in_list_column')
      return ('in', ir.V(v), ir.V(lv))
    if x < 0.25 and self.p('lists'):
      v = self.fresh_var(bound)
      inner_calls = r.random() < 0.3
      items = tuple(self.gen_expr(t, bound, 1, inner_calls) for _ in range(r.choice([1, 2, 2, 3])))
      bound[v] = t
      self.mark('in_literal')
      return ('in', ir.V(v), ('list', items))
    if x < 0.45 and self.p('inj'):
      inj = [n for n in self.order if self.preds[n]['kind'] == 'inj']
      if inj:
        name = r.choice(inj)
        meta = self.preds[name]
        v = self.fresh_var(bound)
        if 'value_type' in meta:
          # body-less injectible whose value is an aggregating expression: v == Fi(e)
          if isinstance(meta['cols'][0][1], tuple):
            return self.gen_filter(bound)
          lit = ('cmp', '==', ir.V(v), ('fcall', name, ((None, self.gen_expr(meta['cols'][0][1], bound, 1, False)),)))
          self.mark('inj_comb_call')
        else:
          lit = ('call', name, ((None, self.gen_expr(meta['cols'][0][1], bound, 1, False)), (None, ir.V(v))))
        bound[v] = meta['cols'][1][1]
        self.mark('inj_call')
        return lit
    if x < 0.6 and self.p('records'):
      fs = r.sample(FIELD_NAMES, r.choice([1, 2]))
      rt = ('rec', tuple((f, self.scalar_type()) for f in sorted(fs)))
      v = self.fresh_var(bound)
      e = ('rec', tuple((f, self.gen_expr(ft, bound, 1, False)) for f, ft in rt[1]))
      bound[v] = rt
      self.mark('record_literal')
      return ('cmp', '==', ir.V(v), e)
    if x < 0.7 and self.p('lists'):
      v = self.fresh_var(bound)
      lt = ('list', t)
      inner_calls = r.random() < 0.4
      e = ('list', tuple(self.gen_expr(t, bound, 1, inner_calls) for _ in range(r.choice([1, 2, 3]))))
      bound[v] = lt
      self.mark('list_literal')
      return ('cmp', '==', ir.V(v), e)
    v = self.fresh_var(bound)
    e = self.gen_expr(t, bound, 2)
    bound[v] = t
    self.mark('assign')
    lit = ('cmp', '==', ir.V(v), e) if r.random() < 0.7 else ('cmp', '==', e, ir.V(v))
    return lit

  def gen_body(self, n_calls=None, extra=None, exclude=()):
    """Returns (literals in an evaluable order, bound)."""
    r = self.rng
    self._taken = set()
    self._reserved = set()
    self._reserved_rule_level = set()
    self._call_bound = set()
    self._fcalls = []
    bound = {}
    lits = []
    n_calls = n_calls if n_calls is not None else r.choice([1, 1, 2, 2, 3])
    for i in range(n_calls):
      lits.append(self.gen_call(bound, exclude=exclude))
    extra = extra if extra is not None else r.choice([0, 1, 1, 2])
    for _ in range(extra):
      x = r.random()
      if x < 0.45:
        lits.append(self.gen_binder(bound))
      elif x < 0.8 or not self.p('or'):
        lits.append(self.gen_filter(bound))
      else:
        lits.append(self.gen_or(bound))
    if self.p('neg'):
      lits.append(self.gen_negation(bound))
    if self.p('combine'):
      lits.append(self.gen_combine_assign(bound))
    lits = self.break_unification_cycles(lits)
    return lits, bound

  def break_unification_cycles(self, lits):
    """`a == b` between two variables unifies them; `z in [.., y, ..], y == z` is then `z in [.., z, ..]`, which Logica
    (rightly) reports as a circular dependency. Such an equality is replaced by a trivial literal."""
    eqs = [i for i, l in enumerate(lits) if l[0] == 'cmp' and l[1] == '==' and l[2][0] == 'var' and l[3][0] == 'var']
    ins = [l for l in lits if l[0] == 'in' and l[1][0] == 'var']
    if not eqs or not ins:
      return lits
    for i in eqs:
      parent = {}

      def find(x):
        while parent.get(x, x) != x:
          x = parent[x]
        return x
      for j in eqs:
        a, b = find(lits[j][2][1]), find(lits[j][3][1])
        if a != b:
          parent[a] = b
      bad = False
      for l in ins:
        members = ir.expr_vars(l[2])
        if any(find(m) == find(l[1][1]) for m in members):
          bad = True
      if bad:
        lits = list(lits)
        lits[i] = ('cmp', '==', ir.N(1), ir.N(1))
        return self.break_unification_cycles(lits)
    return lits

  def gen_or(self, bound):
    """Disjunction nested under the conjunction; both alternatives bind the same new variable or none."""
    r = self.rng
    self.mark('or')
    if r.random() < 0.5:
      return ('or', (self.gen_filter(bound), self.gen_filter(bound)))
    t = self.scalar_type()
    v = self.fresh_var(bound)
    alts = []
    for _ in range(r.choice([2, 2, 3])):
      if r.random() < 0.6:
        alts.append(('cmp', '==', ir.V(v), self.gen_expr(t, bound, 1, False)))
      else:
        b2 = dict(bound)
        b2[v] = t
        # a call that binds v through one of its columns of type t
        cands = [n for n in self.callable_preds() if any(ct == t for (c, ct) in self.preds[n]['cols'])]
        if not cands:
          alts.append(('cmp', '==', ir.V(v), self.gen_expr(t, bound, 1, False)))
          continue
        name = r.choice(cands)
        meta = self.preds[name]
        args = []
        used = False
        for (c, ct), f in zip(meta['cols'], meta['fields']):
          if ct == t and not used:
            args.append((f if f is not None else (None if c != 'logica_value' else 'logica_value'), ir.V(v)))
            used = True
          elif f is None and c != 'logica_value':
            w = self.fresh_var(b2)
            b2[w] = ct
            self._reserved_rule_level.add(w)     # mentioned at rule level in one DNF branch: never a combine-local name
            args.append((None, ir.V(w)))
        alts.append(('call', name, tuple(args)))
    bound[v] = t
    return ('or', tuple(alts))

  # -- aggregation-flavoured literals (C02) --------------------------------------------------------
  def small_body(self, outer, n=None):
    """Conjunction correlated with outer variables; its new variables are local. Returns (prop, local_bound)."""
    r = self.rng
    b = dict(outer)
    lits = [self.gen_call(b)]
    if r.random() < 0.35:
      lits.append(self.gen_call(b))
    if r.random() < 0.4:
      lits.append(self.gen_filter(b))
    r.shuffle(lits)
    local = {v: t for v, t in b.items() if v not in outer}
    return (('and', tuple(lits)) if len(lits) > 1 else lits[0]), b, local

  def gen_negation(self, bound):
    r = self.rng
    saved = set(self._taken)
    if r.random() < 0.5:
      self._taken = set(bound)   # reuse of local names across siblings is welcome
    body, b, local = self.small_body(bound)
    self._taken = saved | set(local)
    self.mark('negation')
    if r.random() < 0.2:
      self.mark('implication')
      return ('imp', body, self.gen_filter(b))
    return ('not', body)

  def agg_expr(self, op, b):
    r = self.rng
    if op in ('ArgMin=', 'ArgMax='):
      kt = self.scalar_type()
      return ('arrow', self.gen_expr(kt, b, 1, False), self.gen_expr('int', b, 1, False)), kt
    if op in ('ArgMin2=', 'ArgMax2=', 'ArgMin3='):
      kt = self.scalar_type()
      self.mark('k_aggregate')
      self.k_aggs_used.add(op.rstrip('='))
      return ('arrow', self.gen_expr(kt, b, 1, False), self.gen_expr('int', b, 1, False)), ('list', kt)
    if op in ('+=',):
      return self.gen_expr('int', b, 1, False), 'int'
    if op in ('Min=', 'Max='):
      t = self.scalar_type()
      return self.gen_expr(t, b, 1, False), t
    if op == 'Count=':
      t = self.scalar_type()
      self._last_count_arg_type = t
      return self.gen_expr(t, b, 1, False), 'int'
    t = self.scalar_type()
    return self.gen_expr(t, b, 1, False), ('list', t)

  def pick_agg_op(self):
    ops = ['+=', '+=', 'Min=', 'Max=', 'Count=', 'List=', 'Set=']
    if self.p('argminmax'):
      ops += ['ArgMin=', 'ArgMax=']
    if self.p('argk') and not getattr(self, '_in_combine', 0):
      # user-defined K-aggregates (predicate-level only: a group is never empty there)
      ops += ['ArgMin2=', 'ArgMax2=', 'ArgMin3=', 'ArgMin2=']
    return self.rng.choice(ops)

  def gen_combine_assign(self, bound, depth=2):
    """v == Op{e :- body}; body correlated with outer variables; nested combine reuses local names."""
    r = self.rng
    v = self.fresh_var(bound)          # the assigned variable is chosen first: it must not be captured inside
    self._reserved.add(v)
    saved = set(self._taken)
    if r.random() < 0.6:
      self._taken = set(bound) | {v}   # sibling combines reuse the same local names
    body, b, local = self.small_body(bound)
    self._in_combine = getattr(self, '_in_combine', 0) + 1
    op = self.pick_agg_op()
    self._in_combine -= 1
    if depth > 1 and r.random() < 0.3:
      # nested combine inside the body, correlated with the middle level, reusing names
      inner = self.gen_combine_assign(b, depth - 1)
      body = ('and', tuple(ir_flatten(body)) + (inner,))
      self.mark('nested_combine')
    e, t = self.agg_expr(op, b)
    self._taken = saved | set(b)
    self._reserved.discard(v)
    bound[v] = t
    self.mark('combine')
    self.mark('combine_' + op)
    return ('cmp', '==', ir.V(v), ('comb', op, e, body))

  # -- derived predicates ------------------------------------------------------------------------
  def gen_derived(self):
    r = self.rng
    kind = 'derived'
    x = r.random()
    if x < 0.25 and self.p('func'):
      kind = 'fun'
    name = self.fresh_name(FUN_NAMES if kind == 'fun' else DER_NAMES, 'N')
    is_agg = self.p('agg')
    n_rules = r.choice([1, 1, 2, 2, 3])
    arity = r.choice([1, 2, 2, 3])
    head_cols = self.columns_spec(arity, allow_composite=False)   # types refined from expressions below
    rules = []
    col_types = None
    agg_ops = None
    count_arg_types = {}
    for k in range(n_rules):
      lits, bound = self.gen_body(exclude=(name,))
      scal = {v: t for v, t in bound.items()}
      # head expressions: first rule fixes the types
      args = []
      types = []
      for i, (c, f, t0) in enumerate(head_cols):
        t = col_types[i] if col_types else self.pick_head_type(bound, t0)
        e = self.head_expr(t, bound)
        args.append([f, e, None])
        types.append(t)
      value = None
      if kind == 'fun':
        vt = (col_types[-1] if col_types else self.pick_head_type(bound, self.scalar_type(), scalar_only=True))
        value = [self.head_expr(vt, bound), None]
        types.append(vt)
      if is_agg:
        if agg_ops is None:
          agg_ops = {}
          # aggregate the value and/or some named args; keep at least one key column sometimes zero
          for i, a in enumerate(args):
            if r.random() < 0.45:
              agg_ops[i] = self.pick_agg_op()
          if value is not None and r.random() < 0.7:
            agg_ops['value'] = self.pick_agg_op()
          if any(op in ('ArgMin2=', 'ArgMax2=', 'ArgMin3=') for op in agg_ops.values()):
            # K-aggregates are interesting on groups of several rows: few or no key columns
            for i, a in enumerate(args):
              if i not in agg_ops and r.random() < 0.7:
                agg_ops[i] = r.choice(['+=', 'Min=', 'Max=', 'Count='])
        for i, op in agg_ops.items():
          if col_types is None:
            e, t = self.agg_expr(op, bound)
            if op == 'Count=':
              count_arg_types[i] = self._last_count_arg_type
            if i == 'value':
              value = [e, op]
              types[-1] = t
            else:
              args[i] = [args[i][0], e, op]
              types[i] = t
          else:
            e = self.agg_expr_typed(op, bound, col_types[-1] if i == 'value' else col_types[i], count_arg_types.get(i))
            if i == 'value':
              value = [e, op]
            else:
              args[i] = [args[i][0], e, op]
      if col_types is None:
        col_types = types
      r.shuffle(lits)
      rule = {'pred': name, 'args': [tuple(a) for a in args], 'value': tuple(value) if value else None,
              'distinct': bool(is_agg), 'body': ('and', tuple(lits)) if len(lits) > 1 else lits[0]}
      rules.append(rule)
    cols = []
    fields = []
    for (c, f, _), t in zip(head_cols, col_types):
      cols.append((c, t))
      fields.append(f)
    meta = {'cols': cols, 'fields': fields, 'kind': kind}
    if kind == 'fun':
      cols.append(('logica_value', col_types[-1]))
      fields.append('logica_value')
      meta['value_type'] = col_types[-1]
    if is_agg:
      meta['agg'] = True
      self.mark('agg_pred')
      if n_rules > 1:
        self.mark('multi_body_agg')
      # a positional aggregated argument is written colN? Op= e
    if n_rules > 1:
      self.mark('multi_rule')
    self.rules.extend(rules)
    self.preds[name] = meta
    self.order.append(name)
    return name

  def agg_expr_typed(self, op, bound, t, count_arg_type=None):
    """Aggregated expression for a later rule of a multi-body aggregation: must produce the fixed type."""
    if op in ('ArgMin=', 'ArgMax='):
      return ('arrow', self.gen_expr(t, bound, 1, False), self.gen_expr('int', bound, 1, False))
    if op in ('ArgMin2=', 'ArgMax2=', 'ArgMin3='):
      return ('arrow', self.gen_expr(t[1], bound, 1, False), self.gen_expr('int', bound, 1, False))
    if op in ('List=', 'Set='):
      return self.gen_expr(t[1], bound, 1, False)
    if op == 'Count=':
      # all bodies of a multi-body aggregation feed one auxiliary column: the counted expressions share a type
      return self.gen_expr(count_arg_type or 'int', bound, 1, False)
    return self.gen_expr(t, bound, 1, False)

  def pick_head_type(self, bound, t0, scalar_only=False):
    r = self.rng
    types = sorted(set(map(repr, bound.values())))
    avail = [t for t in bound.values()]
    if scalar_only:
      avail = [t for t in avail if not isinstance(t, tuple)]
    if avail and r.random() < 0.7:
      return r.choice(avail)
    return t0 if not (scalar_only and isinstance(t0, tuple)) else 'int'

  def head_expr(self, t, bound):
    vs = self.vars_of_type(bound, t)
    if vs and self.rng.random() < 0.7:
      return ir.V(self.rng.choice(vs))
    return self.gen_expr(t, bound, 2)

  def gen_injectible(self):
    name = self.fresh_name(INJ_NAMES, 'I')
    r = self.rng
    t = self.scalar_type()
    a, b = r.sample(['a', 'b', 'x', 'y', 'v', 'k'], 2)      # deliberately the same names callers use
    self._taken = set()
    bound = {a: t}
    if t == 'int':
      e = ('bin', r.choice(['+', '-', '*']), ir.V(a), ir.N(r.choice([1, 2, 3])))
      if r.random() < 0.3:
        e = ('if', ('cmpe', '>', ir.V(a), ir.N(1)), e, ir.V(a))
    else:
      e = ('bin', '++', ir.V(a), ir.S(r.choice(['!', 'q', ''])))
    body = ('cmp', '==', ir.V(b), e)
    if r.random() < 0.3 and t == 'int':
      body = ('and', (body, ('cmp', r.choice(['>', '<', '!=']), ir.V(a), ir.N(r.choice([0, 1, 2])))))
    self.rules.append({'pred': name, 'args': [(None, ir.V(a), None), (None, ir.V(b), None)], 'value': None,
                       'distinct': False, 'body': body})
    self.preds[name] = {'cols': [('col0', t), ('col1', t)], 'fields': [None, None], 'kind': 'inj'}
    self.order.append(name)
    self.mark('inj_pred')
    return name

  def gen_combine_headed(self):
    """Body-less single-rule predicates whose value is an aggregating expression:
    `G() = Op{e :- body}` (concrete, zero arguments) and `Fi(a) = Op{e :- body(a, ...)}` (injectible-only: `a` is
    bound by the caller). The combine's local variables deliberately use the names callers use."""
    r = self.rng
    zero = r.random() < 0.5
    name = self.fresh_name(['Tot', 'Gz', 'Agg0'] if zero else ['Fi', 'Sub', 'Per'], 'K')
    self._taken = set(VAR_NAMES[7:])          # x y z u v w p: what callers pick first
    self._reserved = set()
    self._reserved_rule_level = set()
    self._call_bound = set()
    self._fcalls = []
    outer = {}
    a = None
    if not zero:
      t = self.scalar_type()
      a = r.choice(['x', 'y', 'a', 'k'])
      outer = {a: t}
      self._taken.add(a)
      # the body must mention the argument: pick a table with a column of its type
      cands = [n for n in self.callable_preds() if any(ct == t for (c, ct) in self.preds[n]['cols'])]
      if not cands:
        return None
    body, b, local = self.small_body(outer)
    needs_call = (not _is_call_argument(body, a)) if self.f.get('typed') else (a not in ir.prop_vars(body, None, True))
    if a is not None and needs_call:
      # the argument must be passed to a table column: its type is then ground (and the body really depends on it)
      body = ('and', tuple(ir_flatten(body)) + (self.correlating_call(a, outer[a], b),))
    op = r.choice(['+=', '+=', 'Min=', 'Max=', 'Count='])
    e, vt = self.agg_expr(op, b)
    value = (('comb', op, e, body), None)
    if zero:
      self.rules.append({'pred': name, 'args': [], 'value': value, 'distinct': False, 'body': None})
      self.preds[name] = {'cols': [('logica_value', vt)], 'fields': ['logica_value'], 'kind': 'fun', 'value_type': vt,
                          'combine_headed': True}
      self.mark('combine_headed_concrete')
    else:
      self.rules.append({'pred': name, 'args': [(None, ir.V(a), None)], 'value': value, 'distinct': False, 'body': None})
      self.preds[name] = {'cols': [('col0', outer[a]), ('logica_value', vt)], 'fields': [None, 'logica_value'], 'kind': 'inj',
                          'value_type': vt, 'combine_headed': True}
      self.mark('combine_headed_injectible')
    self.order.append(name)
    return name

  def correlating_call(self, v, t, bound):
    """A call that uses variable v (type t) in one of its columns."""
    r = self.rng
    cands = [n for n in self.callable_preds() if any(ct == t for (c, ct) in self.preds[n]['cols'])]
    name = r.choice(cands)
    meta = self.preds[name]
    args = []
    used = False
    for (c, ct), f in zip(meta['cols'], meta['fields']):
      if ct == t and not used:
        args.append((f if f is not None else (None if c != 'logica_value' else 'logica_value'), ir.V(v)))
        used = True
      elif f is None and c != 'logica_value':
        w = self.fresh_var(bound)
        bound[w] = ct
        args.append((None, ir.V(w)))
    return ('call', name, tuple(args))

  # -- whole program -------------------------------------------------------------------------
  def program(self):
    r = self.rng
    for _ in range(r.randint(*self.f['n_ext'])):
      self.gen_ext()
    if self.p('func') and (r.random() < 0.5 or self.f.get('fcall_boost')):
      self.gen_fun_facts()
    if self.p('inj'):
      self.gen_injectible()
    n_der = r.randint(*self.f['n_der'])
    for k in range(n_der):
      if k == 1 and self.f.get('combine', 0) > 0 and r.random() < 0.5:
        self.gen_combine_headed()
      self.gen_derived()
    engine = ('Engine', 'sqlite', (('type_checking', 'true'),)) if self.f.get('typed') else ('Engine', 'sqlite')
    from vf.ref import aggregates as _agg
    prelude = [('raw', _agg.K_AGG_PRELUDE[k]) for k in sorted(self.k_aggs_used)]
    return {'rules': self.rules, 'annotations': [engine] + prelude, 'preds': self.preds, 'order': list(self.order),
            'features': dict(self.used_features)}


def _is_call_argument(body, v):
  for l in ir_flatten(body):
    if l[0] == 'call' and any(e == ('var', v) for _, e in l[2]):
      return True
  return False


def c_is_value_only(args):
  return all(n == 'logica_value' for n, _ in args)


def ir_flatten(p):
  if p[0] == 'and':
    out = []
    for q in p[1]:
      out.extend(ir_flatten(q))
    return out
  return [p]


def generate(rng, features=None):
  return Gen(rng, features).program()
