"""IR -> Logica text through a token list with typed boundaries, under a spelling policy.

Token stream: [tok, boundary, tok, boundary, ...].  Boundaries:
  ''  canonical nothing, layout noise allowed
  ' ' canonical single space, layout noise allowed
  'G' glued (predicate name and its opening bracket, `?` of an aggregated field ...): nothing may be inserted
  'K' single space next to a keyword operator (` in `, ` is `, `combine `, `else if`, ` as `, `distinct`)
"""
from vf.gen import ir

PREC = {'||': 1, '&&': 2, '->': 3, '==': 4, '<=': 4, '>=': 4, '<': 4, '>': 4, '!=': 4, '=': 4, 'in': 5,
        '++': 6, '+': 7, '-': 7, '*': 8, '/': 8, '%': 8, '^': 9}


class Policy:
  """Spelling choices. defaults: option per kind; overrides: {(kind, occurrence_index): option};
  rng + probs: random choice per occurrence."""

  DEFAULTS = {'positional': 'pos',        # 'pos' | 'col'  (col: positional args written colN: e)
              'short_named': 'short',     # 'short' | 'long'   a:  vs  a: a
              'value': 'eq',              # 'eq' | 'named'     F(x) = v  vs  F(x, logica_value: v)
              'assign': '==',             # '==' | '='
              'neg': 'tilde',             # 'tilde' | 'max'
              'imp': 'arrow',             # 'arrow' | 'neg'
              'comb': 'braces',           # 'braces' | 'opeq' | 'combine'
              'in_list': 'in',            # 'in' | 'or'
              'head_agg': 'short',        # 'short' | 'long'   P(k) Op= e  vs  P(k, logica_value? Op= e) distinct
              'parens': 'full',           # 'full' | 'min'
              'fcall': 'inline',          # 'inline' | 'conjunct' (handled at IR level by transform, kept for counting)
              }

  def __init__(self, defaults=None, overrides=None, rng=None, probs=None):
    self.defaults = dict(self.DEFAULTS)
    if defaults:
      self.defaults.update(defaults)
    self.overrides = overrides or {}
    self.rng = rng
    self.probs = probs or {}
    self.sites = {}      # kind -> number of occurrences seen
    self.taken = {}      # (kind, index) -> option

  OPTIONS = {'positional': ['pos', 'col'], 'short_named': ['short', 'long'], 'value': ['eq', 'named'],
             'assign': ['==', '='], 'neg': ['tilde', 'max'], 'imp': ['arrow', 'neg'],
             'comb': ['braces', 'opeq', 'combine'], 'in_list': ['in', 'or'], 'head_agg': ['short', 'long'],
             'parens': ['full', 'min']}

  def pick(self, kind, allowed=None):
    i = self.sites.get(kind, 0)
    self.sites[kind] = i + 1
    if (kind, i) in self.overrides:
      opt = self.overrides[(kind, i)]
    elif self.rng is not None and self.rng.random() < self.probs.get(kind, 0.0):
      opt = self.rng.choice(self.OPTIONS[kind])
    else:
      opt = self.defaults[kind]
    if allowed is not None and opt not in allowed:
      opt = allowed[0]
    self.taken[(kind, i)] = opt
    return opt


def _has_fcall(e):
  found = []

  def fn(x):
    if x[0] == 'fcall':
      found.append(1)
  ir.walk_expr(e, fn)
  return bool(found)


class Printer:
  def __init__(self, policy=None):
    self.pol = policy or Policy()
    self.toks = []
    self._b = None
    self.depth = 0     # nesting depth of combine / negation bodies

  # -- token emission --------------------------------------------------------------------------
  def t(self, text):
    if self.toks:
      self.toks.append(self._b if self._b is not None else '')
    self.toks.append(text)
    self._b = None

  def sp(self):
    self._b = ' '

  def glue(self):
    self._b = 'G'

  def kw(self):
    self._b = 'K'

  def text(self):
    out = []
    for i, x in enumerate(self.toks):
      if i % 2 == 0:
        out.append(x)
      else:
        out.append(' ' if x in (' ', 'K') else '')
    return ''.join(out)

  # -- literals ------------------------------------------------------------------------------
  @staticmethod
  def str_literal(s):
    if '"' not in s and '\\' not in s and '\n' not in s:
      return '"%s"' % s
    out = ["'"]
    for ch in s:
      if ch == '\\':
        out.append('\\\\')
      elif ch == "'":
        out.append("\\'")
      elif ch == '\n':
        out.append('\\n')
      elif ch == '\t':
        out.append('\\t')
      else:
        out.append(ch)
    out.append("'")
    return ''.join(out)

  # -- expressions ---------------------------------------------------------------------------
  def expr(self, e, parent_prec=0, right=False, operand=False):
    k = e[0]
    if k == 'num':
      if e[1] < 0 and operand:
        self.t('('); self.t(str(e[1])); self.t(')')
      else:
        self.t(str(e[1]))
    elif k == 'str':
      self.t(self.str_literal(e[1]))
    elif k == 'bool':
      self.t('true' if e[1] else 'false')
    elif k == 'null':
      self.t('null')
    elif k == 'var':
      self.t(e[1])
    elif k == 'list':
      self.t('[')
      for i, x in enumerate(e[1]):
        if i:
          self.t(','); self.sp()
        self.expr(x)
      self.t(']')
    elif k == 'rec':
      self.t('{')
      for i, (f, x) in enumerate(e[1]):
        if i:
          self.t(','); self.sp()
        self.named_field(f, x)
      self.t('}')
    elif k in ('bin', 'cmpe'):
      op = e[1]
      mode = self.pol.pick('parens')
      prec = PREC[op]
      need = operand and (mode == 'full' or prec < parent_prec or (prec == parent_prec and right))
      if need:
        self.t('(')
      self.expr(e[2], prec, False, True)
      self.sp(); self.t(op); self.sp()
      self.expr(e[3], prec, True, True)
      if need:
        self.t(')')
    elif k == 'not_e':
      self.t('!'); self.t('(')
      self.expr(e[1])
      self.t(')')
    elif k == 'neg':
      # unary minus; as an operand it is parenthesised (`a - -b` is rejected by both parsers)
      if operand:
        self.t('(')
      self.t('-'); self.t('(')
      self.expr(e[1])
      self.t(')')
      if operand:
        self.t(')')
    elif k == 'field':
      if e[1][0] == 'var':
        self.t(e[1][1])
      else:
        self.t('('); self.expr(e[1]); self.t(')')
      self.glue(); self.t('.'); self.glue(); self.t(str(e[2]))
    elif k == 'if':
      self.t('(')
      self.t('if'); self.kw()
      self.expr(e[1]); self.kw(); self.t('then'); self.kw()
      self.expr(e[2], 0, False, True); self.kw(); self.t('else'); self.kw()
      self.expr(e[3], 0, False, True)
      self.t(')')
    elif k == 'fcall':
      self.t(e[1]); self.glue(); self.t('(')
      self.args(e[2])
      self.t(')')
    elif k == 'builtin':
      self.t(e[1]); self.glue(); self.t('(')
      for i, x in enumerate(e[2]):
        if i:
          self.t(','); self.sp()
        self.expr(x)
      self.t(')')
    elif k == 'arrow':
      self.expr(e[1], 99, False, True); self.sp(); self.t('->'); self.sp(); self.expr(e[2], 99, True, True)
    elif k == 'ine':
      self.t('(')
      self.expr(e[1], 99, False, True); self.kw(); self.t('in'); self.kw(); self.expr(e[2], 99, True, True)
      self.t(')')
    elif k == 'comb':
      style = self.pol.pick('comb', allowed=['braces', 'combine'])
      self.comb(e, style)
    else:
      raise ValueError('cannot print expr %r' % (e,))

  def comb(self, e, style):
    op, inner, body = e[1], e[2], e[3]
    if style == 'braces':
      self.t(ir.COMB_NAME.get(op, op.rstrip('='))); self.glue(); self.t('{')
      self.depth += 1
      self.expr(inner)
      self.sp(); self.t(':-'); self.sp()
      self.prop(body, top=True)
      self.depth -= 1
      self.t('}')
    else:
      self.t('('); self.t('combine'); self.kw(); self.t(op); self.sp()
      self.depth += 1
      self.expr(inner)
      self.sp(); self.t(':-'); self.sp()
      self.prop(body, top=True)
      self.depth -= 1
      self.t(')')

  def named_field(self, f, x, agg=None):
    """`f: x` (or `f:` shorthand, or `f? Op= x`)."""
    if agg is not None:
      self.t(str(f)); self.glue(); self.t('?'); self.sp(); self.t(agg); self.sp(); self.expr(x)
      return
    if x[0] == 'var' and x[1] == f and self.pol.pick('short_named') == 'short':
      self.t(str(f)); self.glue(); self.t(':')
      return
    self.t(str(f)); self.glue(); self.t(':'); self.sp(); self.expr(x)

  def args(self, args, aggs=None):
    """args: ((name|None, expr), ...). Positional args may be printed as colN: e (a suffix of them)."""
    pos = [i for i, (n, _) in enumerate(args) if n is None]
    col_from = len(pos)
    if pos and self.pol.pick('positional') == 'col':
      col_from = 0 if len(pos) == 1 else (len(pos) // 2)
    if aggs:
      # an aggregated positional argument is written `colN? Op= e`; everything after it must be named too
      for k, i in enumerate(pos):
        if aggs[i] is not None:
          col_from = min(col_from, k)
          break
    first = True
    pi = 0
    for i, (n, x) in enumerate(args):
      if not first:
        self.t(','); self.sp()
      first = False
      agg = aggs[i] if aggs else None
      if n is None:
        if pi >= col_from or agg is not None:
          self.named_field('col%d' % pi, x, agg)
        else:
          self.expr(x)
        pi += 1
      else:
        self.named_field(n, x, agg)

  # -- propositions --------------------------------------------------------------------------
  def prop(self, p, top=False, in_and=False):
    k = p[0]
    if k == 'and':
      need = not top and not in_and
      if need:
        self.t('(')
      for i, q in enumerate(p[1]):
        if i:
          self.t(','); self.sp()
        self.prop(q, in_and=True)
      if need:
        self.t(')')
    elif k == 'or':
      need = not top
      if need:
        self.t('(')
      for i, q in enumerate(p[1]):
        if i:
          self.sp(); self.t('|'); self.sp()
        self.prop(q, top=(q[0] == 'and'), in_and=False)
      if need:
        self.t(')')
    elif k == 'call':
      self.t(p[1]); self.glue(); self.t('(')
      self.args(p[2])
      self.t(')')
    elif k == 'cmp':
      op = p[1]
      if op == '==':
        # aggregated assignment spelling  x Op= (e :- b)
        if p[3][0] == 'comb' and p[2][0] == 'var':
          style = self.pol.pick('comb')
          if style == 'opeq':
            self.t(p[2][1]); self.sp(); self.t(p[3][1]); self.sp(); self.t('(')
            self.depth += 1
            self.expr(p[3][2]); self.sp(); self.t(':-'); self.sp(); self.prop(p[3][3], top=True)
            self.depth -= 1
            self.t(')')
            return
          self.t(p[2][1]); self.sp(); self.t(self.pol.pick('assign')); self.sp()
          self.comb(p[3], style)
          return
        # the documented use of `=` in a proposition is assignment to a variable (`volume = side * side`)
        op = self.pol.pick('assign') if p[2][0] == 'var' else '=='
      self.expr(p[2], 4, False, True); self.sp(); self.t(op); self.sp(); self.expr(p[3], 4, True, True)
    elif k == 'in':
      if (p[2][0] == 'list' and len(p[2][1]) >= 1 and self.depth == 0 and not _has_fcall(p[2]) and
          self.pol.pick('in_list') == 'or'):      # disjunction is not allowed inside aggregation / negation
        # (a functional call inside a list element is a conjunct of the whole rule in the `in` form but of one
        # alternative only in the disjunction form: the two spellings are equivalent only for call-free elements)
        self.t('(')
        for i, x in enumerate(p[2][1]):
          if i:
            self.sp(); self.t('|'); self.sp()
          self.expr(p[1], 4, False, True); self.sp(); self.t('=='); self.sp(); self.expr(x, 4, True, True)
        self.t(')')
      else:
        self.expr(p[1], 99, False, True); self.kw(); self.t('in'); self.kw(); self.expr(p[2], 99, True, True)
    elif k == 'not':
      self.depth += 1
      try:
        self._print_not(p)
      finally:
        self.depth -= 1
    elif k == 'imp':
      self.depth += 1
      try:
        self._print_imp(p)
      finally:
        self.depth -= 1
    elif k == 'isnull':
      self.expr(p[1], 99, False, True); self.kw(); self.t('is'); self.kw(); self.t('null')
    elif k == 'notnull':
      self.expr(p[1], 99, False, True); self.kw(); self.t('is not'); self.kw(); self.t('null')
    else:
      raise ValueError('cannot print prop %r' % (p,))

  def _print_not(self, p):
    if True:
      if self.pol.pick('neg') == 'tilde':
        self.t('~')
        if p[1][0] == 'call':
          self.prop(p[1])
        else:
          self.t('('); self.prop(p[1], top=True); self.t(')')
      else:
        self.t('Max'); self.glue(); self.t('{'); self.t('1'); self.sp(); self.t(':-'); self.sp()
        self.prop(p[1], top=True)
        self.t('}'); self.kw(); self.t('is'); self.kw(); self.t('null')

  def _print_imp(self, p):
    if True:
      if self.pol.pick('imp') == 'arrow':
        self.t('(')
        self.prop(p[1]); self.sp(); self.t('=>'); self.sp(); self.prop(p[2])
        self.t(')')
      else:
        self.t('~'); self.t('(')
        self.prop(p[1], in_and=True); self.t(','); self.sp(); self.t('~'); self.t('('); self.prop(p[2], top=True); self.t(')')
        self.t(')')

  # -- statements ------------------------------------------------------------------------------
  def rule(self, r):
    value = r.get('value')
    args = [(n, e) for n, e, _ in r['args']]
    aggs = [a for _, _, a in r['args']]
    distinct = r.get('distinct')
    value_named = False
    long_head_agg = False
    if value is not None:
      if value[1] is None:
        value_named = self.pol.pick('value') == 'named'
      else:
        long_head_agg = self.pol.pick('head_agg') == 'long'
    if value_named:
      args = args + [('logica_value', value[0])]
      aggs = aggs + [None]
    if long_head_agg:
      args = args + [('logica_value', value[0])]
      aggs = aggs + [value[1]]
    self.t(r['pred']); self.glue(); self.t('(')
    self.args(tuple(args), aggs)
    self.t(')')
    if value is not None and not value_named and not long_head_agg:
      self.sp()
      self.t('=' if value[1] is None else value[1]); self.sp()
      self.expr(value[0], 4, True, value[0][0] in ('cmpe', 'bin', 'not_e', 'neg', 'arrow'))
    explicit_distinct = distinct and (value is None or value[1] is None or long_head_agg or r.get('force_distinct'))
    if explicit_distinct:
      self.kw(); self.t('distinct')
    if r.get('denotations'):
      for d in r['denotations']:
        self.kw(); self.t(d)
    if r.get('body') is not None:
      self.sp(); self.t(':-'); self.sp()
      self.prop(r['body'], top=True)
    self.t(';')

  def annotation(self, a):
    k = a[0]
    if k == 'Engine':
      self.t('@Engine'); self.glue(); self.t('('); self.t('"%s"' % a[1])
      for f, v in (a[2] if len(a) > 2 else ()):
        self.t(','); self.sp(); self.t(f); self.glue(); self.t(':'); self.sp(); self.t(v)
      self.t(')'); self.t(';')
    elif k == 'OrderBy':
      self.t('@OrderBy'); self.glue(); self.t('('); self.t(a[1])
      for c in a[2]:
        self.t(','); self.sp(); self.t('"%s"' % c)
      self.t(')'); self.t(';')
    elif k in ('Limit', 'Recursive'):
      self.t('@' + k); self.glue(); self.t('('); self.t(a[1]); self.t(','); self.sp(); self.t(str(a[2]))
      for f, v in (a[3] if len(a) > 3 else ()):
        self.t(','); self.sp(); self.t(f); self.glue(); self.t(':'); self.sp(); self.t(v)
      self.t(')'); self.t(';')
    elif k in ('Ground', 'NoInject', 'With', 'NoWith'):
      self.t('@' + k); self.glue(); self.t('('); self.t(a[1]); self.t(')'); self.t(';')
    elif k == 'AttachDatabase':
      self.t('@AttachDatabase'); self.glue(); self.t('('); self.t('"%s"' % a[1]); self.t(','); self.sp()
      self.t('"%s"' % a[2]); self.t(')'); self.t(';')
    elif k == 'make':
      self.t(a[1]); self.sp(); self.t(':='); self.sp(); self.t(a[2]); self.glue(); self.t('(')
      for i, (x, y) in enumerate(a[3]):
        if i:
          self.t(','); self.sp()
        self.t(x); self.glue(); self.t(':'); self.sp()
        self.t(y if isinstance(y, str) else str(y))
      self.t(')'); self.t(';')
    elif k == 'raw':
      self.t(a[1])
    else:
      raise ValueError('cannot print annotation %r' % (a,))

  def program(self, prog):
    """Prints statements in prog['statements'] order if present, else annotations then rules."""
    stmts = prog.get('statements')
    if stmts is None:
      stmts = [('ann', a) for a in prog.get('annotations', [])] + [('rule', r) for r in prog['rules']]
    lines = []
    for kind, s in stmts:
      start = len(self.toks)
      if kind == 'ann':
        self.annotation(s)
      else:
        self.rule(s)
      # statement separator: newline boundary
      self._b = '\n'
    return self


def program_text(prog, policy=None):
  p = Printer(policy)
  p.program(prog)
  out = []
  for i, x in enumerate(p.toks):
    if i % 2 == 0:
      out.append(x)
    else:
      out.append({'': '', ' ': ' ', 'K': ' ', 'G': '', '\n': '\n'}[x])
  return ''.join(out) + '\n', p


def rule_text(rule, policy=None):
  p = Printer(policy)
  p.rule(rule)
  return p.text()
