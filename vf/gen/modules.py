"""Splits a single-file IR program into an import tree (C12)."""
import os

from vf.gen import ir, printer

PATHS = ['util', 'lib.util', 'lib.data', 'pkg.sub.util', 'pkg.data', 'other.util', 'pkg.sub.data', 'lib.more.util', 'base']
LOCAL_NAMES = ['Helper', 'Aux', 'Data', 'P', 'Q']


def split(prog, rng, n_modules=None, shared_base_names=None, aliases=0.4, private_same_names=0.7):
  """Returns dict(files={path: text}, main_text, main_preds, info) for a program whose predicates are unique.

  Predicates are assigned to modules in dependency order (a module imports only from earlier modules);
  the last group is the main file."""
  order = [p for p in prog['order']]
  n = n_modules or rng.choice([2, 2, 3, 3, 4, 5])
  n = max(2, min(n, len(order)))
  cuts = sorted(rng.sample(range(1, len(order)), n - 1)) if len(order) > n - 1 else list(range(1, len(order)))
  groups = []
  prev = 0
  for c in cuts + [len(order)]:
    groups.append(order[prev:c])
    prev = c
  groups = [g for g in groups if g]
  n = len(groups)
  module_of = {p: i for i, g in enumerate(groups) for p in g}
  direct = {}
  for r in prog['rules']:
    direct.setdefault(r['pred'], set()).update(ir.called_preds_rule(r))
  makes = {a[1]: a for a in prog.get('annotations', []) if a[0] == 'make'}
  for n_, a in makes.items():
    # a functor application names its functor, the argument predicates and the value predicates
    direct.setdefault(n_, set()).add(a[2])
    for x, y in a[3]:
      direct[n_].add(x)
      if isinstance(y, str):
        direct[n_].add(y)
  # file paths: optionally force shared base names
  paths = list(PATHS)
  rng.shuffle(paths)
  want_shared = rng.random() < 0.5 if shared_base_names is None else shared_base_names
  if want_shared:
    utils = [p for p in PATHS if p.split('.')[-1] == 'util']
    rng.shuffle(utils)
    paths = utils + [p for p in paths if p not in utils]
  mod_path = {i: paths[i] for i in range(n - 1)}
  mod_path[n - 1] = 'main'
  # who is used outside its module
  used_outside = set()
  for p, ds in direct.items():
    for q in ds:
      if q in module_of and module_of[q] != module_of[p]:
        used_outside.add(q)
  # local names: private predicates of different modules get the same names
  local = {}
  for i, g in enumerate(groups):
    taken = set()
    pool = [x for x in LOCAL_NAMES if x not in prog['preds']]     # never reuse a name the program itself defines
    rng.shuffle(pool)
    for p in g:
      name = p
      if i != n - 1 and p not in used_outside and pool and rng.random() < private_same_names \
          and prog['preds'][p]['kind'] != 'ext':
        name = pool.pop()
      elif i != n - 1 and p in used_outside and rng.random() < 0.3 and pool:
        name = pool.pop()        # exported under a common name: importers of two such need an alias
      if name in taken:
        name = p
      taken.add(name)
      local[p] = name
  files = {}
  info = {'modules': {}, 'diamond': False, 'shared_base_names': False, 'same_private_names': False, 'aliases': 0}
  seen_private = {}
  for p, nm in local.items():
    if nm != p:
      seen_private.setdefault(nm, set()).add(module_of[p])
  info['same_private_names'] = any(len(v) > 1 for v in seen_private.values())
  bases = [mod_path[i].split('.')[-1] for i in range(n - 1)]
  info['shared_base_names'] = len(set(bases)) < len(bases)
  imports_of = {}
  for i, g in enumerate(groups):
    needed = []
    for p in g:
      for q in sorted(direct.get(p, ())):
        if q in module_of and module_of[q] != i and q not in needed:
          needed.append(q)
    # names visible in this file: own local names + imported names / aliases
    visible = {p: local[p] for p in g}
    used_names = set(visible.values())
    stmts = []
    for q in needed:
      name = local[q]
      alias = None
      if name in used_names or rng.random() < aliases:
        k = 0
        alias = 'Imp%s' % name
        while alias in used_names:
          k += 1
          alias = 'Imp%s%d' % (name, k)
        info['aliases'] += 1
      visible[q] = alias or name
      used_names.add(alias or name)
      stmts.append(('ann', ('raw', 'import %s.%s%s;' % (mod_path[module_of[q]], name, (' as ' + alias) if alias else ''))))
    imports_of[i] = {module_of[q] for q in needed}
    if i == n - 1:
      stmts = [('ann', a) for a in prog['annotations'] if a[0] != 'make'] + stmts
    for p in g:
      if p in makes:
        a = makes[p]
        stmts.append(('ann', ('make', visible[a[1]], visible.get(a[2], a[2]),
                              tuple((visible.get(x, x), visible.get(y, y) if isinstance(y, str) else y) for x, y in a[3]))))
    for r in prog['rules']:
      if r['pred'] in g:
        stmts.append(('rule', ir.rename_preds_rule(r, visible)))
    text, _ = printer.program_text({'statements': stmts, 'rules': []})
    files[mod_path[i]] = text
    info['modules'][mod_path[i]] = {'preds': {p: local[p] for p in g}, 'imports': sorted(mod_path[module_of[q]] + '.' + local[q] for q in needed)}
  # diamond: some module is imported by two different modules that are themselves imported by a common one
  for a in range(n):
    for b in imports_of.get(a, ()):
      for c in imports_of.get(a, ()):
        if b != c and (imports_of.get(b, set()) & imports_of.get(c, set())):
          info['diamond'] = True
        if b != c and c in imports_of.get(b, set()):
          info['diamond'] = True
  main_text = files.pop('main')
  return {'files': files, 'main_text': main_text, 'main_preds': list(groups[-1]), 'info': info, 'module_of': module_of,
          'mod_path': mod_path, 'local': local}


def write_tree(roots, files, rng=None):
  """Writes module files under the import root(s); with several roots the files are spread over them."""
  if isinstance(roots, str):
    roots = [roots]
  for k, (path, text) in enumerate(sorted(files.items())):
    root = roots[k % len(roots)] if rng is None else rng.choice(roots)
    full = os.path.join(root, *path.split('.')) + '.l'
    os.makedirs(os.path.dirname(full), exist_ok=True)
    with open(full, 'w') as f:
      f.write(text)
