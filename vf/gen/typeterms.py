"""Type-term universe for C16, defined by construction (see DESIGN 4/C16)."""
import itertools

from vf.ref.typemeet import rec

ATOMS = ['Any', 'Singular', 'Sequential', 'Num', 'Str', 'Bool', 'Time']


def records(field_names, field_types, max_fields, min_fields=0):
  out = []
  for k in range(min_fields, max_fields + 1):
    for names in itertools.combinations(field_names, k):
      for types in itertools.product(field_types, repeat=k):
        for kind in ('O', 'C'):
          out.append(rec(kind, dict(zip(names, types))))
  return out


def universe():
  level0 = list(ATOMS)
  level1 = [('L', t) for t in level0] + records(['a', 'b', 0], ['Any', 'Num', 'Str'], 2)
  core = ['Num', 'Str', ('L', 'Num'), ('L', 'Any'), rec('C', {'a': 'Num'}), rec('O', {'a': 'Num'}),
          rec('O', {'a': 'Any'}), rec('C', {0: 'Str'})]
  level2 = [('L', t) for t in level1] + records(['a', 0], core, 2, min_fields=1)
  seen = set()
  out = []
  for t in level0 + level1 + level2:
    if t not in seen:
      seen.add(t)
      out.append(t)
  return out, {'level0': len(level0), 'level1': len(level1), 'level2': len(level2)}


def triple_core():
  """40-60 term core for order-independence over triples."""
  c = list(ATOMS)
  c += [('L', 'Any'), ('L', 'Num'), ('L', 'Str'), ('L', 'Singular'), ('L', ('L', 'Num'))]
  for kind in ('O', 'C'):
    c += [rec(kind, {}), rec(kind, {'a': 'Any'}), rec(kind, {'a': 'Num'}), rec(kind, {'a': 'Str'}),
          rec(kind, {'b': 'Num'}), rec(kind, {'a': 'Num', 'b': 'Any'}), rec(kind, {'a': 'Any', 'b': 'Str'}),
          rec(kind, {0: 'Num'}), rec(kind, {0: 'Any', 'a': 'Num'}),
          rec(kind, {'a': ('L', 'Num')}), rec(kind, {'a': ('L', 'Any')}),
          rec(kind, {'a': rec('O', {'b': 'Num'})}), rec(kind, {'a': rec('C', {'b': 'Num'})}),
          rec(kind, {'a': rec('O', {})})]
  c += [('L', rec('O', {'a': 'Num'})), ('L', rec('C', {'a': 'Num'})), ('L', rec('O', {'b': 'Str'}))]
  return c


def random_term(rng, depth):
  """Sampled level-3 (and deeper) terms."""
  if depth == 0 or rng.random() < 0.25:
    return rng.choice(ATOMS)
  k = rng.random()
  if k < 0.3:
    return ('L', random_term(rng, depth - 1))
  n = rng.choice([0, 1, 1, 2, 2, 3])
  names = rng.sample(['a', 'b', 'c', 0, 1], n)
  return rec('O' if rng.random() < 0.5 else 'C', {f: random_term(rng, depth - 1) for f in names})
