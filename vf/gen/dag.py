"""Generator of Concertina configurations (C14 workload A).

Shapes follow what the compiler produces (see recursion_library): an iteration group is either
two halves (upper = step k-1 of every cover member, lower = step k; lower members read upper
members and the same external inputs as the upper half) or a 'diamond' (all members in one half,
internal reads only from earlier members of the declared order).  External inputs of a group are
produced before it; readers of a group's members come after it.
"""
import itertools

NAME_POOL = ['A', 'B', 'C', 'D', 'E', 'F', 'G', 'H', 'K', 'M', 'N', 'P', 'Q', 'R', 'S', 'T',
             'A_ifr1', 'A_ifr2', 'B_ifr1', 'B_ifr2', 'Aa', 'a', 'b', 'z', 'Z', 'P1', 'P10', 'P2',
             'db.Tab', 'T:x', '⤓A', '_x', 'Zz_diamond', 'A_diamond', 'A_portal', 'X9', 'x0', 'y']


def query_action(name, requires):
  return {'name': name, 'type': 'intermediate', 'requires': list(requires),
          'action': {'predicate': name, 'launcher': 'query', 'engine': 'stub', 'sql': 'SQL(%s)' % name}}


def data_action(name):
  return {'name': name, 'type': 'data', 'requires': [],
          'action': {'predicate': name, 'launcher': 'none'}}


def random_config(rng, max_units=7, allow_groups=True):
  """Returns (config, iterations, description)."""
  n_units = rng.randint(1, max_units)
  names = rng.sample(NAME_POOL, len(NAME_POOL)) + ['W%d' % i for i in range(30)]
  names_iter = iter(names)
  units = []   # each: dict(kind, members=[...], upper, lower)
  n_groups = 0
  for u in range(n_units):
    r = rng.random()
    if allow_groups and n_groups < 2 and r < 0.4:
      n_groups += 1
      if rng.random() < 0.3:
        m = rng.randint(1, 4)
        members = [next(names_iter) for _ in range(m)]
        units.append({'kind': 'diamond', 'members': members, 'upper': members, 'lower': []})
      else:
        m = rng.randint(1, 3)
        upper = [next(names_iter) for _ in range(m)]
        lower = [next(names_iter) for _ in range(m)]
        units.append({'kind': 'halves', 'members': upper + lower, 'upper': upper, 'lower': lower})
    elif r < 0.5:
      units.append({'kind': 'data', 'members': [next(names_iter)]})
    else:
      units.append({'kind': 'plain', 'members': [next(names_iter)]})
  rng.shuffle(units)
  config = []
  iterations = {}
  sig_n = 0
  for ui, u in enumerate(units):
    earlier = [m for v in units[:ui] for m in v['members']]
    if u['kind'] == 'data':
      config.append(data_action(u['members'][0]))
      continue
    if u['kind'] == 'plain':
      k = rng.choice([0, 1, 1, 2, 3])
      req = rng.sample(earlier, min(k, len(earlier)))
      config.append(query_action(u['members'][0], req))
      continue
    # a group
    ext_pool = rng.sample(earlier, min(len(earlier), rng.choice([0, 1, 2, 3])))
    upper_ext = set()
    reqs = {}
    for i, m in enumerate(u['upper']):
      e = [x for x in ext_pool if rng.random() < 0.6]
      if u['kind'] == 'diamond':
        e += [x for x in u['upper'][:i] if rng.random() < 0.5]
      reqs[m] = e
      upper_ext.update(x for x in e if x not in u['upper'])
    for m in u['lower']:
      ups = [x for x in u['upper'] if rng.random() < 0.6] or [rng.choice(u['upper'])]
      e = [x for x in sorted(upper_ext) if rng.random() < 0.5]
      reqs[m] = ups + e
    for m in u['members']:
      config.append(query_action(m, reqs[m]))
    it_name = 'iter_%s' % u['members'][0]
    spec = {'predicates': list(u['members']), 'repetitions': rng.choice([1, 1, 2, 3, 4, 6]),
            'stop_signal': None}
    if rng.random() < 0.6:
      sig_n += 1
      spec['stop_signal'] = 'SIGNAL_%d' % sig_n    # replaced by a scratch path by the check
    if u['kind'] == 'diamond':
      spec['mode'] = 'diamond'
    iterations[it_name] = spec
  rng.shuffle(config)
  return config, iterations


def all_small_dags(n, names):
  """Every DAG on n nodes whose edges go from a lower to a higher position, with given names."""
  pairs = [(i, j) for i in range(n) for j in range(i + 1, n)]
  for mask in range(1 << len(pairs)):
    req = {i: [] for i in range(n)}
    for b, (i, j) in enumerate(pairs):
      if mask >> b & 1:
        req[j].append(names[i])
    yield [query_action(names[i], req[i]) for i in range(n)]


def small_group_configs(n, names):
  """n plain actions in a chain-free DAG plus one 2-member halves group placed at every position with
  every legal external wiring (exhaustive for tiny n)."""
  u, l = 'U_ifr1', 'U_ifr2'
  for k in range(n + 1):
    before, after = names[:k], names[k:]
    for ext in itertools.chain.from_iterable(itertools.combinations(before, r) for r in range(len(before) + 1)):
      for lext in itertools.chain.from_iterable(itertools.combinations(ext, r) for r in range(len(ext) + 1)):
        for readers in itertools.product([(), (u,), (l,), (u, l)], repeat=len(after)):
          cfg = [query_action(b, []) for b in before]
          cfg.append(query_action(u, list(ext)))
          cfg.append(query_action(l, [u] + list(lext)))
          for a, rd in zip(after, readers):
            cfg.append(query_action(a, list(rd)))
          yield cfg, {'it': {'predicates': [u, l], 'repetitions': 3, 'stop_signal': 'SIGNAL_1'}}
