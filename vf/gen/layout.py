"""Layout noise and token corruption on printer / syntaxgen token streams."""

COMMENT_BODIES = [' plain ', ' ; ( " \' :- | ', ' distinct in combine ', '', ' }]) ', ' x == "y" ', ' a , b ']
NOISE_WS = [' ', '  ', '\t', '\n', ' \n ', '\n\n']


def noise_item(rng, kinds):
  k = rng.choice(kinds)
  if k == 'ws':
    return rng.choice(NOISE_WS), 'ws'
  if k == 'hash':
    # the comment may be glued to the token before it; the newline that ends it is then the only separator
    return rng.choice([' #', ' #', '#']) + rng.choice(COMMENT_BODIES).replace('\n', ' ') + '\n', 'hash'
  return ' /*' + rng.choice(COMMENT_BODIES).replace('*/', '* /') + '*/ ', 'block'


def variant(toks, rng, density=0.3, kinds=('ws', 'ws', 'hash', 'block'), at=('', ' ', '\n'), tight=False, trailing_semicolon=False):
  """Returns (text, log). Noise is inserted only at boundaries whose type is in `at`;
  tight=True removes the optional spaces instead (boundary ' ' -> nothing)."""
  out = []
  log = []
  for i, x in enumerate(toks):
    if i % 2 == 0:
      out.append(x)
      continue
    base = {'': '', ' ': ' ', 'K': ' ', 'G': '', '\n': '\n'}[x]
    if tight and x == ' ' and (toks[i - 1][-1:] in ',()[]{};' or (toks[i + 1][:1] if i + 1 < len(toks) else '') in ',()[]{};'):
      # only spaces next to a separator or a bracket are optional beyond doubt: elsewhere removing the space can
      # merge two tokens into another one (`v: -1` -> `v:-1`, `a ArgMin=` -> `aArgMin=`)
      base = ''
      log.append((i, 'tight'))
    if x in at and rng.random() < density:
      n, kind = noise_item(rng, kinds)
      # a '#' comment must not swallow the following token: it always ends with a newline
      y = rng.random()
      base = base + n if y < 0.4 else (n + base if y < 0.8 else n)
      log.append((i, kind, toks[i - 1], toks[i + 1] if i + 1 < len(toks) else ''))
    out.append(base)
  text = ''.join(out)
  if trailing_semicolon:
    text = text.rstrip() + (';' if not text.rstrip().endswith(';') else '') + '\n'
  return text, log


def keyword_variant(toks, rng, density=0.5):
  """Noise only at keyword-adjacent boundaries ('K'): newline / tab / double space."""
  out = []
  log = []
  for i, x in enumerate(toks):
    if i % 2 == 0:
      out.append(x)
      continue
    base = {'': '', ' ': ' ', 'K': ' ', 'G': '', '\n': '\n'}[x]
    if x == 'K' and rng.random() < density:
      base = rng.choice(['\n', '\t', '  ', ' \n'])
      log.append((i, 'kw', toks[i - 1], toks[i + 1] if i + 1 < len(toks) else ''))
    out.append(base)
  return ''.join(out), log


def corrupt(toks, rng):
  """Single-token corruption; returns (text, description)."""
  idx = [i for i in range(0, len(toks), 2)]
  i = rng.choice(idx)
  k = rng.choice(['delete', 'duplicate', 'swap', 'replace_other', 'bracket', 'quote', 'keyword'])
  t = list(toks)
  if k == 'delete':
    t[i] = ''
  elif k == 'duplicate':
    t[i] = t[i] + ' ' + t[i]
  elif k == 'swap' and i + 2 < len(t):
    t[i], t[i + 2] = t[i + 2], t[i]
  elif k == 'replace_other':
    t[i] = t[rng.choice(idx)]
  elif k == 'bracket':
    t[i] = rng.choice(['(', ')', '[', ']', '{', '}'])
  elif k == 'quote':
    t[i] = rng.choice(['"', "'", '"""', '`'])
  else:
    t[i] = rng.choice(['distinct', 'in', 'if', 'then', 'else', 'combine', ':-', '|', '~', ':=', '=>', 'is', 'import', '..', '?', ';'])
  out = []
  for j, x in enumerate(t):
    out.append(x if j % 2 == 0 else {'': '', ' ': ' ', 'K': ' ', 'G': '', '\n': '\n'}[x])
  return ''.join(out), '%s token %d (%r)' % (k, i // 2, toks[i])


BASE_SEP = {'': '', ' ': ' ', 'K': ' ', 'G': '', '\n': '\n'}


def plan_variant(toks, rng, density=0.3, kinds=('ws', 'ws', 'hash', 'block'), at=('', ' ', '\n'), keyword=False):
  """Returns the list of noise items [(boundary index, replacement text, kind, left token, right token)]."""
  items = []
  for i in range(1, len(toks), 2):
    x = toks[i]
    base = BASE_SEP[x]
    right = toks[i + 1] if i + 1 < len(toks) else ''
    if keyword:
      if x == 'K' and rng.random() < density:
        items.append((i, rng.choice(['\n', '\t', '  ', ' \n']), 'kw', toks[i - 1], right))
      continue
    if x in at and rng.random() < density:
      n, kind = noise_item(rng, kinds)
      y = rng.random()
      items.append((i, base + n if y < 0.4 else (n + base if y < 0.8 else n), kind, toks[i - 1], right))
  return items


def render_with(toks, items, trailing_semicolon=False):
  repl = {it[0]: it[1] for it in items}
  out = []
  for i, x in enumerate(toks):
    if i % 2 == 0:
      out.append(x)
    else:
      out.append(repl.get(i, BASE_SEP[x]))
  text = ''.join(out)
  if trailing_semicolon:
    text = text.rstrip() + (';' if not text.rstrip().endswith(';') else '') + '\n'
  return text


def minimize(toks, items, still_fails, trailing_semicolon=False, budget=150):
  """ddmin-style reduction of the noise items to a small set that still makes the variant fail."""
  items = list(items)
  n = 2
  while len(items) >= 2 and budget > 0:
    chunk = max(1, len(items) // n)
    reduced = False
    for start in range(0, len(items), chunk):
      trial = items[:start] + items[start + chunk:]
      if not trial:
        continue
      budget -= 1
      if still_fails(render_with(toks, trial, trailing_semicolon)):
        items = trial
        n = max(n - 1, 2)
        reduced = True
        break
      if budget <= 0:
        break
    if not reduced:
      if chunk == 1:
        break
      n = min(len(items), n * 2)
  return items
