"""Intermediate representation of Logica programs (plain tuples / dicts, JSON-able).

Types:  'int' 'str' 'bool'  ('list', t)  ('rec', ((field, t), ...))

Expr:
  ('num', n) ('str', s) ('bool', b) ('null',)
  ('var', name)
  ('list', (e, ...))
  ('rec', ((field, e), ...))
  ('bin', op, a, b)          op in + - * ++ && ||
  ('cmpe', op, a, b)         comparison used as a boolean expression
  ('not_e', a)
  ('neg', a)               unary minus
  ('field', e, f)
  ('if', c, t, e)
  ('fcall', F, args)         functional call; args: ((name|None, expr), ...)
  ('comb', op, e, body)      aggregating expression  Op{e :- body};  for ArgMin/ArgMax e is ('arrow', a, v)
  ('arrow', a, v)            a -> v
  ('ine', x, l)              `x in l` as a boolean expression
  ('builtin', name, args)    built-in function call (C20)

Prop:
  ('and', (p, ...)) ('or', (p, ...))
  ('call', P, args)          args: ((name|None, expr), ...)
  ('cmp', op, a, b)          op in == != < <= > >=   (== is unification/assignment)
  ('in', x, l)
  ('not', p)
  ('imp', a, b)
  ('isnull', e) ('notnull', e)

Rule: {'pred', 'args': [(name|None, expr, agg|None)], 'value': (expr, agg|None)|None,
       'distinct': bool, 'body': prop|None}
Program: {'rules': [...], 'annotations': [...], 'preds': {name: meta}, 'order': [names in dependency order]}
  annotation: ('Engine', 'sqlite') | ('OrderBy', P, [col...]) | ('Limit', P, k) | ('Ground', P) | ('NoInject', P)
              | ('With', P) | ('NoWith', P) | ('Recursive', P, depth) | ('make', N, F, ((A, B), ...))
  meta: {'cols': [(colname, type)], 'kind': 'ext'|'derived'|'inj'|'made', ...}
"""

AGG_OPS = ['+=', 'Min=', 'Max=', 'Count=', 'List=', 'Set=', 'ArgMin=', 'ArgMax=']
COMB_NAME = {'ArgMin2=': 'ArgMin2', 'ArgMax2=': 'ArgMax2', 'ArgMin3=': 'ArgMin3', '+=': 'Sum', 'Min=': 'Min', 'Max=': 'Max', 'Count=': 'Count', 'List=': 'List', 'Set=': 'Set',
             'ArgMin=': 'ArgMin', 'ArgMax=': 'ArgMax'}


def colname(field):
  return 'col%d' % field if isinstance(field, int) else field


def V(name):
  return ('var', name)


def N(n):
  return ('num', n)


def S(s):
  return ('str', s)


def walk_expr(e, fn):
  """Pre-order walk over sub-expressions (does not enter combine bodies' propositions unless fn asks)."""
  fn(e)
  k = e[0]
  if k in ('list',):
    for x in e[1]:
      walk_expr(x, fn)
  elif k == 'rec':
    for _, x in e[1]:
      walk_expr(x, fn)
  elif k in ('bin', 'cmpe'):
    walk_expr(e[2], fn)
    walk_expr(e[3], fn)
  elif k in ('not_e', 'neg'):
    walk_expr(e[1], fn)
  elif k == 'field':
    walk_expr(e[1], fn)
  elif k == 'if':
    for x in e[1:]:
      walk_expr(x, fn)
  elif k in ('fcall', 'builtin'):
    for _, x in (e[2] if k == 'fcall' else [(None, a) for a in e[2]]):
      walk_expr(x, fn)
  elif k == 'arrow':
    walk_expr(e[1], fn)
    walk_expr(e[2], fn)
  elif k == 'ine':
    walk_expr(e[1], fn)
    walk_expr(e[2], fn)
  elif k == 'comb':
    walk_expr(e[2], fn)


def expr_vars(e, into=None, enter_combines=True):
  """All variable names mentioned in e (including inside combine bodies when enter_combines)."""
  out = set() if into is None else into

  def go(x):
    k = x[0]
    if k == 'var':
      out.add(x[1])
    elif k == 'list':
      for y in x[1]:
        go(y)
    elif k == 'rec':
      for _, y in x[1]:
        go(y)
    elif k in ('bin', 'cmpe'):
      go(x[2])
      go(x[3])
    elif k in ('not_e', 'neg'):
      go(x[1])
    elif k == 'field':
      go(x[1])
    elif k == 'if':
      go(x[1]); go(x[2]); go(x[3])
    elif k == 'fcall':
      for _, y in x[2]:
        go(y)
    elif k == 'builtin':
      for y in x[2]:
        go(y)
    elif k in ('arrow', 'ine'):
      go(x[1]); go(x[2])
    elif k == 'comb':
      if enter_combines:
        go(x[2])
        prop_vars(x[3], out, enter_combines)
  go(e)
  return out


def prop_vars(p, into=None, enter_combines=True):
  out = set() if into is None else into
  k = p[0]
  if k in ('and', 'or'):
    for q in p[1]:
      prop_vars(q, out, enter_combines)
  elif k == 'call':
    for _, e in p[2]:
      expr_vars(e, out, enter_combines)
  elif k == 'cmp':
    expr_vars(p[2], out, enter_combines)
    expr_vars(p[3], out, enter_combines)
  elif k == 'in':
    expr_vars(p[1], out, enter_combines)
    expr_vars(p[2], out, enter_combines)
  elif k == 'not':
    if enter_combines:
      prop_vars(p[1], out, enter_combines)
  elif k == 'imp':
    if enter_combines:
      prop_vars(p[1], out, enter_combines)
      prop_vars(p[2], out, enter_combines)
  elif k in ('isnull', 'notnull'):
    expr_vars(p[1], out, enter_combines)
  return out


def map_expr(e, f_expr, f_prop):
  """Rebuilds e bottom-up: f_expr applied to every rebuilt expression, f_prop to every rebuilt proposition."""
  k = e[0]
  if k in ('num', 'str', 'bool', 'null', 'var'):
    r = e
  elif k == 'list':
    r = ('list', tuple(map_expr(x, f_expr, f_prop) for x in e[1]))
  elif k == 'rec':
    r = ('rec', tuple((f, map_expr(x, f_expr, f_prop)) for f, x in e[1]))
  elif k in ('bin', 'cmpe'):
    r = (k, e[1], map_expr(e[2], f_expr, f_prop), map_expr(e[3], f_expr, f_prop))
  elif k in ('not_e', 'neg'):
    r = (k, map_expr(e[1], f_expr, f_prop))
  elif k == 'field':
    r = (k, map_expr(e[1], f_expr, f_prop), e[2])
  elif k == 'if':
    r = (k,) + tuple(map_expr(x, f_expr, f_prop) for x in e[1:])
  elif k == 'fcall':
    r = (k, e[1], tuple((n, map_expr(x, f_expr, f_prop)) for n, x in e[2]))
  elif k == 'builtin':
    r = (k, e[1], tuple(map_expr(x, f_expr, f_prop) for x in e[2]))
  elif k in ('arrow', 'ine'):
    r = (k, map_expr(e[1], f_expr, f_prop), map_expr(e[2], f_expr, f_prop))
  elif k == 'comb':
    r = (k, e[1], map_expr(e[2], f_expr, f_prop), map_prop(e[3], f_expr, f_prop)) + tuple(e[4:])
  else:
    raise ValueError('unknown expr %r' % (e,))
  return f_expr(r)


def map_prop(p, f_expr, f_prop):
  k = p[0]
  if k in ('and', 'or'):
    r = (k, tuple(map_prop(q, f_expr, f_prop) for q in p[1]))
  elif k == 'call':
    r = (k, p[1], tuple((n, map_expr(x, f_expr, f_prop)) for n, x in p[2]))
  elif k == 'cmp':
    r = (k, p[1], map_expr(p[2], f_expr, f_prop), map_expr(p[3], f_expr, f_prop)) + tuple(p[4:])
  elif k == 'in':
    r = (k, map_expr(p[1], f_expr, f_prop), map_expr(p[2], f_expr, f_prop))
  elif k == 'not':
    r = (k, map_prop(p[1], f_expr, f_prop)) + tuple(p[2:])
  elif k == 'imp':
    r = (k, map_prop(p[1], f_expr, f_prop), map_prop(p[2], f_expr, f_prop))
  elif k in ('isnull', 'notnull'):
    r = (k, map_expr(p[1], f_expr, f_prop))
  else:
    raise ValueError('unknown prop %r' % (p,))
  return f_prop(r)


def ident(x):
  return x


def map_rule(rule, f_expr=ident, f_prop=ident):
  r = dict(rule)
  r['args'] = [(n, map_expr(e, f_expr, f_prop), a) for n, e, a in rule['args']]
  if rule.get('value') is not None:
    r['value'] = (map_expr(rule['value'][0], f_expr, f_prop), rule['value'][1])
  if rule.get('body') is not None:
    r['body'] = map_prop(rule['body'], f_expr, f_prop)
  return r


def rename_vars_rule(rule, mapping):
  def fe(e):
    if e[0] == 'var' and e[1] in mapping:
      return ('var', mapping[e[1]])
    return e
  return map_rule(rule, fe, ident)


def rename_preds_rule(rule, mapping):
  def fe(e):
    if e[0] == 'fcall' and e[1] in mapping:
      return ('fcall', mapping[e[1]], e[2])
    return e

  def fp(p):
    if p[0] == 'call' and p[1] in mapping:
      return ('call', mapping[p[1]], p[2])
    return p
  r = map_rule(rule, fe, fp)
  r['pred'] = mapping.get(rule['pred'], rule['pred'])
  return r


def rule_vars(rule):
  out = set()
  for _, e, _ in rule['args']:
    expr_vars(e, out)
  if rule.get('value') is not None:
    expr_vars(rule['value'][0], out)
  if rule.get('body') is not None:
    prop_vars(rule['body'], out)
  return out


def called_preds_prop(p, out):
  def fe(e):
    if e[0] == 'fcall':
      out.add(e[1])
    return e

  def fp(q):
    if q[0] == 'call':
      out.add(q[1])
    return q
  map_prop(p, fe, fp)


def called_preds_rule(rule):
  out = set()

  def fe(e):
    if e[0] == 'fcall':
      out.add(e[1])
    return e

  def fp(q):
    if q[0] == 'call':
      out.add(q[1])
    return q
  map_rule(rule, fe, fp)
  return out


def to_jsonable(x):
  if isinstance(x, tuple):
    return [to_jsonable(y) for y in x]
  if isinstance(x, list):
    return [to_jsonable(y) for y in x]
  if isinstance(x, dict):
    return {str(k): to_jsonable(v) for k, v in x.items()}
  return x


def from_jsonable(x):
  """Inverse of to_jsonable for expr/prop trees (lists -> tuples)."""
  if isinstance(x, list):
    return tuple(from_jsonable(y) for y in x)
  return x
