"""Grammar-directed generator of Logica program *text* covering every production of docs/syntax.md
(plus the operators and literal forms the parser documents itself).  Programs need not be meaningful,
only derivable.  Output is a token stream with typed boundaries (see vf/gen/printer.py):
  '' nothing (noise allowed), ' ' one space (noise allowed), 'G' glued, 'K' keyword-adjacent space, '\\n' statement break.
"""

VARS = ['x', 'y', 'z', 'a', 'b', 'n', 'x1', 'name', 'v_1', 't0']
PREDS = ['P', 'Q', 'Rel', 'Edge', 'F', 'G', 'Parent', 'A1', 'T_b', 'Big']
FIELDS = ['a', 'b', 'name', 'w', 'k1', 'value']
BIN_OPS = ['+', '-', '*', '/', '%', '^', '++', '==', '!=', '<', '<=', '>', '>=', '&&', '||', '->']
AGG_OPS = ['+=', 'Min=', 'Max=', 'List=', 'Set=', 'Count=', 'ArgMin=', 'ArgMax=', 'Sum=', 'Avg=', 'Array=']
STRINGS = ['"a"', '""', '"x y"', '"in"', '"a;b"', '"#no"', '"(|"', '":- "', '"distinct"', "'q'", "'it\\'s'", "'a\\\\b'", "'\\n'", "'\\t'",
           '"combine "', '"/* */"', '"}"', '"if "', '"é"', '"日本"', "'\\x41'", "'\\u00e9'", '"""tri\nple"""', '"""a "q" b"""']
NUMBERS = ['0', '1', '2', '10', '42', '3.5', '0.25', '100']


class Toks:
  def __init__(self):
    self.t = []
    self.b = None

  def tok(self, text):
    if self.t:
      self.t.append(self.b if self.b is not None else '')
    self.t.append(text)
    self.b = None
    return self

  def sp(self):
    self.b = ' '
    return self

  def glue(self):
    self.b = 'G'
    return self

  def kw(self):
    self.b = 'K'
    return self

  def nl(self):
    self.b = '\n'
    return self


class SyntaxGen:
  def __init__(self, rng, max_depth=4):
    self.rng = rng
    self.max_depth = max_depth
    self.cov = {}
    self.o = Toks()

  def hit(self, prod):
    self.cov[prod] = self.cov.get(prod, 0) + 1

  # -- expressions ---------------------------------------------------------------------------
  def expr(self, d=0, atomish=False):
    r = self.rng
    o = self.o
    choices = ['var', 'num', 'str', 'bool', 'null', 'call', 'list', 'record']
    if d < self.max_depth and not atomish:
      choices += ['binop', 'binop', 'binop_chain', 'paren', 'unary', 'if', 'combine', 'inclusion', 'subscript', 'array_sub', 'pred_lit', 'concise_combine',
                  'is_null']
    c = r.choice(choices)
    self.hit('expr_' + c)
    if c == 'var':
      o.tok(r.choice(VARS))
    elif c == 'num':
      o.tok(r.choice(NUMBERS))
    elif c == 'str':
      o.tok(r.choice(STRINGS))
    elif c == 'bool':
      o.tok(r.choice(['true', 'false']))
    elif c == 'null':
      o.tok('null')
    elif c == 'call':
      self.call(d + 1, agg=False)
    elif c == 'list':
      o.tok('[')
      for i in range(r.choice([0, 1, 2, 3])):
        if i:
          o.tok(','); o.sp()
        self.expr(d + 1)
      o.tok(']')
    elif c == 'record':
      o.tok('{')
      self.record_internal(d + 1, agg=False, allow_positional=False, allow_rest=False)
      o.tok('}')
    elif c == 'binop':
      op = r.choice(BIN_OPS)
      self.hit('op_' + op)
      self.operand(d + 1)
      o.sp(); o.tok(op); o.sp()
      self.operand(d + 1)
    elif c == 'binop_chain':
      # several operators without parentheses: precedence and associativity are the parser's
      self.operand(d + 1)
      for _ in range(r.choice([2, 2, 3, 4])):
        op = r.choice(BIN_OPS)
        self.hit('op_' + op)
        o.sp(); o.tok(op); o.sp()
        self.operand(d + 1)
    elif c == 'paren':
      o.tok('('); self.expr(d + 1); o.tok(')')
    elif c == 'unary':
      u = r.choice(['-', '!'])
      self.hit('unary_' + u)
      o.tok(u)
      self.operand(d + 1, tight=True)
    elif c == 'if':
      o.tok('('); o.tok('if'); o.kw(); self.operand(d + 1); o.kw(); o.tok('then'); o.kw(); self.operand(d + 1)
      for _ in range(r.choice([0, 0, 1, 2])):
        self.hit('else_if')
        o.kw(); o.tok('else if'); o.kw(); self.operand(d + 1); o.kw(); o.tok('then'); o.kw(); self.operand(d + 1)
      o.kw(); o.tok('else'); o.kw(); self.operand(d + 1); o.tok(')')
    elif c == 'combine':
      o.tok('('); o.tok('combine'); o.kw(); o.tok(r.choice(AGG_OPS)); o.sp(); self.expr(d + 1)
      if r.random() < 0.8:
        o.sp(); o.tok(':-'); o.sp(); self.proposition(d + 1, top=True, allow_or=False)
      o.tok(')')
    elif c == 'concise_combine':
      o.tok(r.choice(['Sum', 'Max', 'Min', 'List', 'Set', 'Count', 'ArgMax', 'Agg1'])); o.glue(); o.tok('{')
      self.expr(d + 1)
      if r.random() < 0.9:
        o.sp(); o.tok(':-'); o.sp(); self.proposition(d + 1, top=True, allow_or=False)
      o.tok('}')
    elif c == 'inclusion':
      o.tok('('); self.operand(d + 1); o.kw(); o.tok('in'); o.kw(); self.operand(d + 1); o.tok(')')
    elif c == 'is_null':
      o.tok('('); self.operand(d + 1); o.kw(); o.tok(r.choice(['is', 'is not'])); o.kw(); o.tok('null'); o.tok(')')
    elif c == 'subscript':
      o.tok(r.choice(VARS)); o.glue(); o.tok('.'); o.glue(); o.tok(r.choice(FIELDS))
      if r.random() < 0.3:
        o.glue(); o.tok('.'); o.glue(); o.tok(r.choice(FIELDS))
    elif c == 'array_sub':
      o.tok(r.choice(VARS)); o.glue(); o.tok('['); self.expr(d + 1, atomish=True); o.tok(']')
    elif c == 'pred_lit':
      o.tok(r.choice(PREDS))

  def operand(self, d, tight=False):
    """An operand of an operator: atoms and calls bare, everything else parenthesised."""
    r = self.rng
    if r.random() < 0.55 or d >= self.max_depth:
      c = r.choice(['var', 'num', 'str', 'call', 'var', 'sub'])
      if c == 'var':
        self.o.tok(r.choice(VARS))
      elif c == 'num':
        self.o.tok(r.choice(NUMBERS))
      elif c == 'str':
        self.o.tok(r.choice(STRINGS))
      elif c == 'sub':
        self.o.tok(r.choice(VARS)); self.o.glue(); self.o.tok('.'); self.o.glue(); self.o.tok(r.choice(FIELDS))
      else:
        self.call(d + 1, agg=False)
    else:
      self.o.tok('('); self.expr(d + 1); self.o.tok(')')

  def call(self, d, agg=False, head=False):
    r = self.rng
    o = self.o
    name = r.choice(PREDS)
    if not head and r.random() < 0.06:
      name = r.choice(['`db.table`', '`my table`', 'dataset.tab', 'lower_t'])
      self.hit('table_name_predicate')
    o.tok(name); o.glue(); o.tok('(')
    self.record_internal(d, agg=agg, allow_positional=True, allow_rest=not head)
    o.tok(')')

  def record_internal(self, d, agg, allow_positional, allow_rest):
    r = self.rng
    o = self.o
    n = r.choice([0, 1, 1, 2, 2, 3])
    n_pos = r.randint(0, n) if allow_positional else 0
    first = True
    used = set()
    for i in range(n):
      if not first:
        o.tok(','); o.sp()
      first = False
      if i < n_pos:
        if agg and r.random() < 0.15:
          self.hit('agg_positional')
          o.tok('col%d' % i); o.glue(); o.tok('?'); o.sp(); o.tok(r.choice(AGG_OPS)); o.sp(); self.expr(d + 1)
        else:
          self.hit('field_positional')
          self.expr(d + 1)
      else:
        f = r.choice([x for x in FIELDS if x not in used] or ['zz'])
        used.add(f)
        if agg and r.random() < 0.3:
          self.hit('field_aggregating')
          o.tok(f); o.glue(); o.tok('?'); o.sp(); o.tok(r.choice(AGG_OPS)); o.sp(); self.expr(d + 1)
        elif r.random() < 0.3:
          self.hit('field_shorthand')
          o.tok(f); o.glue(); o.tok(':')
        else:
          self.hit('field_named')
          o.tok(f); o.glue(); o.tok(':'); o.sp(); self.expr(d + 1)
    if allow_rest and r.random() < 0.08:
      self.hit('field_rest')
      if not first:
        o.tok(','); o.sp()
      o.tok('..'); o.glue(); o.tok(r.choice(['r', 'rest']))

  # -- propositions --------------------------------------------------------------------------
  def proposition(self, d=0, top=False, allow_or=True):
    r = self.rng
    o = self.o
    n = r.choice([1, 1, 2, 2, 3]) if d < self.max_depth else 1
    if allow_or and d < self.max_depth and r.random() < 0.2:
      self.hit('prop_disjunction')
      m = r.choice([2, 2, 3])
      if not top:
        o.tok('(')
      for i in range(m):
        if i:
          o.sp(); o.tok('|'); o.sp()
        self.conjunction(d + 1, r.choice([1, 1, 2]), allow_or)
      if not top:
        o.tok(')')
      return
    self.conjunction(d, n, allow_or)

  def conjunction(self, d, n, allow_or):
    for i in range(n):
      if i:
        self.o.tok(','); self.o.sp()
        self.hit('prop_conjunction')
      self.literal(d + 1, allow_or)

  def literal(self, d, allow_or):
    r = self.rng
    o = self.o
    choices = ['call', 'call', 'binop', 'binop', 'inclusion', 'assign', 'chain']
    if d < self.max_depth:
      choices += ['negation', 'paren', 'assign_combination', 'implication', 'is_null', 'unary_not']
    c = r.choice(choices)
    self.hit('prop_' + c)
    if c == 'call':
      self.call(d, agg=False)
    elif c == 'binop':
      op = r.choice(['==', '!=', '<', '<=', '>', '>=', '&&', '||'])
      self.operand(d); o.sp(); o.tok(op); o.sp(); self.operand(d)
    elif c == 'chain':
      self.operand(d)
      for _ in range(r.choice([2, 3])):
        o.sp(); o.tok(r.choice(['==', '<', '&&', '||', '+', '-', '*', '++', '!=', '>='])); o.sp(); self.operand(d)
    elif c == 'assign':
      o.tok(r.choice(VARS)); o.sp(); o.tok(r.choice(['=', '=='])); o.sp(); self.expr(d + 1)
    elif c == 'inclusion':
      self.operand(d); o.kw(); o.tok('in'); o.kw(); self.operand(d)
    elif c == 'is_null':
      self.operand(d); o.kw(); o.tok(r.choice(['is', 'is not'])); o.kw(); o.tok('null')
    elif c == 'negation':
      o.tok('~')
      if r.random() < 0.5:
        self.call(d, agg=False)
      else:
        o.tok('('); self.proposition(d + 1, top=True, allow_or=False); o.tok(')')
    elif c == 'unary_not':
      o.tok('!'); o.tok('('); self.operand(d); o.sp(); o.tok('=='); o.sp(); self.operand(d); o.tok(')')
    elif c == 'paren':
      o.tok('('); self.proposition(d + 1, top=True, allow_or=allow_or); o.tok(')')
    elif c == 'implication':
      o.tok('('); self.literal(d + 1, False); o.sp(); o.tok('=>'); o.sp(); self.literal(d + 1, False); o.tok(')')
    elif c == 'assign_combination':
      o.tok(r.choice(VARS)); o.sp(); o.tok(r.choice(AGG_OPS)); o.sp(); o.tok('(')
      self.expr(d + 1); o.sp(); o.tok(':-'); o.sp(); self.proposition(d + 1, top=True, allow_or=False)
      o.tok(')')

  # -- statements ------------------------------------------------------------------------------
  def rule(self):
    r = self.rng
    o = self.o
    agg_head = r.random() < 0.3
    self.call(1, agg=agg_head, head=True)
    x = r.random()
    if x < 0.2:
      self.hit('head_simple_assignment')
      o.sp(); o.tok('='); o.sp(); self.expr(1)
    elif x < 0.35:
      self.hit('head_aggregating_assignment')
      o.sp(); o.tok(r.choice(AGG_OPS)); o.sp(); self.expr(1)
    if agg_head or r.random() < 0.15:
      self.hit('head_distinct')
      o.kw(); o.tok('distinct')
    if r.random() < 0.08:
      self.hit('denotation_order_by')
      o.kw(); o.tok('order_by'); o.glue(); o.tok('('); o.tok('"col0"')
      if r.random() < 0.5:
        o.tok(','); o.sp(); o.tok('"a desc"')
      o.tok(')')
    if r.random() < 0.08:
      self.hit('denotation_limit')
      o.kw(); o.tok('limit'); o.glue(); o.tok('('); o.tok(r.choice(['1', '5', '100'])); o.tok(')')
    if r.random() < 0.75:
      self.hit('rule_with_body')
      o.sp(); o.tok(':-'); o.sp(); self.proposition(1, top=True)
    else:
      self.hit('fact')

  def annotation(self):
    r = self.rng
    o = self.o
    k = r.choice(['Engine', 'OrderBy', 'Limit', 'Ground', 'NoInject', 'With', 'Recursive', 'DefineFlag', 'AttachDatabase', 'Dataset'])
    self.hit('annotation_' + k)
    o.tok('@' + k); o.glue(); o.tok('(')
    if k == 'Engine':
      o.tok('"sqlite"')
      if r.random() < 0.3:
        o.tok(','); o.sp(); o.tok('type_checking'); o.glue(); o.tok(':'); o.sp(); o.tok('true')
    elif k == 'OrderBy':
      o.tok(r.choice(PREDS)); o.tok(','); o.sp(); o.tok('"col0"')
    elif k in ('Limit', 'Recursive'):
      o.tok(r.choice(PREDS)); o.tok(','); o.sp(); o.tok(r.choice(['3', '10', '25']))
      if k == 'Recursive' and r.random() < 0.3:
        o.tok(','); o.sp(); o.tok('iterative'); o.glue(); o.tok(':'); o.sp(); o.tok('true')
    elif k in ('Ground', 'NoInject', 'With'):
      o.tok(r.choice(PREDS))
      if k == 'Ground' and r.random() < 0.3:
        o.tok(','); o.sp(); o.tok('"db.tab"')
    elif k == 'DefineFlag':
      o.tok('"flag_%d"' % r.randrange(3)); o.tok(','); o.sp(); o.tok(r.choice(STRINGS[:6]))
    elif k == 'AttachDatabase':
      o.tok('"logica_home"'); o.tok(','); o.sp(); o.tok('"file.db"')
    else:
      o.tok('"ds"')
    o.tok(')')

  def functor_application(self):
    r = self.rng
    o = self.o
    self.hit('functor_application')
    o.tok(r.choice(PREDS)); o.sp(); o.tok(':='); o.sp(); o.tok(r.choice(PREDS)); o.glue(); o.tok('(')
    for i in range(r.choice([0, 1, 1, 2])):
      if i:
        o.tok(','); o.sp()
      o.tok(r.choice(PREDS)); o.glue(); o.tok(':'); o.sp(); o.tok(r.choice(PREDS + ['5', '"s"']))
    o.tok(')')

  def program(self, n_statements=None, imports=None):
    """imports: list of (path, predicate, alias|None) statements to put first (files must exist)."""
    r = self.rng
    o = self.o
    n = n_statements or r.choice([1, 2, 3, 4, 6, 8, 12])
    for path, pred, alias in (imports or []):
      self.hit('import_as' if alias else 'import')
      o.tok('import'); o.kw(); o.tok('%s.%s' % (path, pred))
      if alias:
        o.kw(); o.tok('as'); o.kw(); o.tok(alias)
      o.tok(';'); o.nl()
    for i in range(n):
      x = r.random()
      if x < 0.12:
        self.annotation()
      elif x < 0.2:
        self.functor_application()
      else:
        self.rule()
      if i < n - 1 or r.random() < 0.8:
        o.tok(';')
        self.hit('semicolon')
      o.nl()
    return o.t


def render(toks):
  out = []
  for i, x in enumerate(toks):
    if i % 2 == 0:
      out.append(x)
    else:
      out.append({'': '', ' ': ' ', 'K': ' ', 'G': '', '\n': '\n'}[x])
  return ''.join(out)


def generate(rng, max_depth=4, n_statements=None, imports=None):
  g = SyntaxGen(rng, max_depth)
  toks = g.program(n_statements, imports)
  return toks, g.cov
