"""Meaning-preserving transformations on IR programs (C07, C08, C11) and helpers."""
import copy
import itertools

from vf.gen import ir


def clone(prog):
  p = dict(prog)
  p['rules'] = [dict(r) for r in prog['rules']]
  p['annotations'] = list(prog.get('annotations', []))
  p['preds'] = copy.deepcopy(prog.get('preds', {}))
  p['order'] = list(prog.get('order', []))
  return p


# -- permutations ------------------------------------------------------------------------------

def shuffle_prop(p, rng, conj=True, disj=True):
  """Recursively permutes conjuncts / disjuncts (also inside combine bodies and negations)."""
  def fe(e):
    return e

  def fp(q):
    if q[0] == 'and' and conj:
      items = list(q[1])
      rng.shuffle(items)
      return ('and', tuple(items))
    if q[0] == 'or' and disj:
      items = list(q[1])
      rng.shuffle(items)
      return ('or', tuple(items))
    return q
  return ir.map_prop(p, fe, fp)


def permute_conjuncts(prog, rng, conj=True, disj=True):
  p = clone(prog)
  for r in p['rules']:
    if r.get('body') is not None:
      r['body'] = shuffle_prop(r['body'], rng, conj, disj)
  return p


def permute_rules(prog, rng, keep_first_of_pred=False):
  """Shuffles the order of all rules and facts. keep_first_of_pred keeps, for every predicate, its first
  rule ahead of its other rules (column order is taken from the first rule)."""
  p = clone(prog)
  rules = list(p['rules'])
  rng.shuffle(rules)
  if keep_first_of_pred:
    first = {}
    for r in prog['rules']:
      first.setdefault(r['pred'], id(r))
    orig_by_id = {id(r): i for i, r in enumerate(prog['rules'])}
    # p['rules'] are shallow copies in the same order: map back through index
    idx_of = {id(r): i for i, r in enumerate(p['rules'])}
    first_idx = {}
    for i, r in enumerate(prog['rules']):
      first_idx.setdefault(r['pred'], i)
    out = []
    emitted_first = set()
    pending = {}
    for r in rules:
      i = idx_of[id(r)]
      pred = r['pred']
      if i == first_idx[pred]:
        out.append(r)
        emitted_first.add(pred)
        out.extend(pending.pop(pred, []))
      elif pred in emitted_first:
        out.append(r)
      else:
        pending.setdefault(pred, []).append(r)
    rules = out
  p['rules'] = rules
  return p


def all_conjunct_orders(rule, limit=24):
  """All permutations of the top-level conjuncts of one rule body (None if more than `limit`)."""
  body = rule.get('body')
  if body is None or body[0] != 'and':
    return [rule]
  items = list(body[1])
  n = 1
  for i in range(2, len(items) + 1):
    n *= i
  if n > limit:
    return None
  out = []
  for perm in itertools.permutations(items):
    r = dict(rule)
    r['body'] = ('and', tuple(perm))
    out.append(r)
  return out


# -- renamings ---------------------------------------------------------------------------------

COLLIDING_VAR_POOLS = [
    ['zz', 'z', 'a', 'x0', 'x', 'x1', 'y', 'b'],
    ['a', 'b', 'c', 'd', 'e', 'f', 'g', 'h'],
    ['x', 'x0', 'x00', 'x1', 'x10', 'x2', 'xa', 'xx'],
    ['v', 'w', 'k', 'name', 'col0', 'value', 'arg', 'n'],
]


def rename_variables(prog, rng, pool=None):
  """Consistent renaming of the variables of every rule; every rule draws from the same small pool so
  that names collide across rules, across injected predicates and their callers, and between combine
  locals and outer variables of other rules.  Field shorthands `a:` stay meaningful because the printer
  spells them as `a: <var>` when the names differ."""
  pool = pool or rng.choice(COLLIDING_VAR_POOLS)
  p = clone(prog)
  out = []
  for r in p['rules']:
    vs = sorted(ir.rule_vars(r))
    names = list(pool)
    rng.shuffle(names)
    extra = ['r%d' % i for i in range(len(vs))]
    names = names + extra
    mapping = {}
    for v, n in zip(vs, names):
      mapping[v] = n
    # two-step to avoid clashes between old and new names
    tmp = {v: '__tmp_%d' % i for i, v in enumerate(vs)}
    r1 = ir.rename_vars_rule(r, tmp)
    r2 = ir.rename_vars_rule(r1, {tmp[v]: mapping[v] for v in vs})
    out.append(r2)
  p['rules'] = out
  return p


PRED_NAME_POOLS = [
    ['Z', 'Y', 'X', 'W', 'V', 'U2', 'T2', 'S2', 'R2', 'Q2', 'P2', 'O', 'N', 'M', 'L', 'K'],   # reverse alphabetical
    ['A', 'Aa', 'Aaa', 'Ab', 'Aab', 'B', 'Ba', 'Baa', 'Bb', 'Bab', 'Ac', 'Bc', 'Aac', 'Bac', 'Abc', 'Bbc'],   # prefixes
    ['P1', 'P10', 'P2', 'P20', 'P3', 'P11', 'P100', 'P12', 'P21', 'P4', 'P5', 'P6', 'P7', 'P8', 'P9', 'P13'],
    ['Node', 'Edge2', 'Nodes', 'EdgeOf', 'N0', 'E0', 'Nod', 'Ed', 'Path', 'PathOf', 'Pat', 'Reach', 'Re', 'R0', 'Root', 'Ro'],
]


def rename_predicates(prog, rng, pool=None):
  pool = list(pool or rng.choice(PRED_NAME_POOLS))
  names = list(prog['order'])
  rng.shuffle(pool)
  if len(pool) < len(names):
    pool += ['Pred%d' % i for i in range(len(names))]
  mapping = dict(zip(names, pool))
  return apply_pred_mapping(prog, mapping), mapping


def apply_pred_mapping(prog, mapping):
  p = clone(prog)
  p['rules'] = [ir.rename_preds_rule(r, mapping) for r in p['rules']]
  p['preds'] = {mapping.get(k, k): v for k, v in p['preds'].items()}
  p['order'] = [mapping.get(k, k) for k in p['order']]
  anns = []
  for a in p['annotations']:
    if a[0] in ('OrderBy', 'Limit', 'Ground', 'NoInject', 'With', 'NoWith', 'Recursive'):
      a = (a[0], mapping.get(a[1], a[1])) + tuple(a[2:])
    elif a[0] == 'make':
      a = ('make', mapping.get(a[1], a[1]), mapping.get(a[2], a[2]),
           tuple((mapping.get(x, x), mapping.get(y, y) if isinstance(y, str) else y) for x, y in a[3]))
    anns.append(a)
  p['annotations'] = anns
  if 'statements' in p:
    del p['statements']
  return p
