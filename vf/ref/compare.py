"""Comparator: rows observed on SQLite vs. the reference multiset."""
import json

from vf.ref import aggregates
from vf.ref.evaluator import unbox, _AggBox
from vf.ref.aggregates import Agg


def from_json_value(x):
  if isinstance(x, list):
    return ('L', tuple(from_json_value(y) for y in x))
  if isinstance(x, dict):
    return ('R', tuple(sorted(((k, from_json_value(v)) for k, v in x.items()), key=lambda kv: str(kv[0]))))
  if isinstance(x, bool):
    return 1 if x else 0
  return x


def norm_value(v):
  """Reference-side value -> comparable canonical form (records with sorted fields)."""
  if isinstance(v, tuple) and v and v[0] == 'R':
    return ('R', tuple(sorted(((str(f), norm_value(x)) for f, x in v[1]), key=lambda kv: kv[0])))
  if isinstance(v, tuple) and v and v[0] == 'L':
    return ('L', tuple(norm_value(x) for x in v[1]))
  if isinstance(v, tuple) and v and v[0] == 'LU':
    return ('LU', tuple(sorted((norm_value(x) for x in v[1]), key=repr)))
  if isinstance(v, bool):
    return 1 if v else 0
  return v


def decode_observed(v, typ):
  """SQLite hands composite values back as JSON text; typ is the generated column type (or None = guess)."""
  composite = isinstance(typ, tuple) and typ[0] in ('list', 'rec')
  if isinstance(v, str) and (composite or (typ is None and v[:1] in '[{')):
    try:
      return from_json_value(json.loads(v))
    except ValueError:
      return v
  if isinstance(v, float) and v == int(v) and typ == 'int':
    return int(v)
  return v


def unordered_eq(n, observed):
  """n: normalised reference value that may contain 'LU' lists; observed: decoded value."""
  if isinstance(n, tuple) and n and n[0] == 'LU':
    return (isinstance(observed, tuple) and observed and observed[0] == 'L'
            and len(observed[1]) == len(n[1]) and sorted(map(repr, observed[1])) == sorted(map(repr, n[1])))
  if isinstance(n, tuple) and n and n[0] == 'L':
    return (isinstance(observed, tuple) and observed and observed[0] == 'L' and len(observed[1]) == len(n[1])
            and all(unordered_eq(a, b) for a, b in zip(n[1], observed[1])))
  if isinstance(n, tuple) and n and n[0] == 'R':
    return (isinstance(observed, tuple) and observed and observed[0] == 'R' and len(observed[1]) == len(n[1])
            and all(fa == fb and unordered_eq(a, b) for (fa, a), (fb, b) in zip(n[1], observed[1])))
  return n == observed


def has_unordered(n):
  if isinstance(n, tuple) and n:
    if n[0] == 'LU':
      return True
    if n[0] == 'L':
      return any(has_unordered(x) for x in n[1])
    if n[0] == 'R':
      return any(has_unordered(x) for _, x in n[1])
  return False


def value_matches(expected, observed):
  e = unbox(expected)
  if isinstance(e, Agg):
    if e.kind == 'exact':
      return unordered_eq(norm_value(e.data), observed)
    if e.kind == 'oneof':
      return any(unordered_eq(norm_value(x), observed) for x in e.data)
    if not (isinstance(observed, tuple) and observed and observed[0] == 'L'):
      return False
    want = sorted(repr(norm_value(x)) for x in e.data)
    got = sorted(repr(x) for x in observed[1])
    return want == got
  return unordered_eq(norm_value(e), observed)


def row_matches(erow, orow):
  return len(erow) == len(orow) and all(value_matches(e, o) for e, o in zip(erow, orow))


def compare_tables(expected, exp_cols, observed_rows, obs_cols, types=None):
  """expected: Counter{row: mult}; observed_rows: list of lists. Returns None if equal as multisets
  (and column names equal in order), else a short description."""
  if list(exp_cols) != list(obs_cols):
    return 'column names differ: expected %s, observed %s' % (list(exp_cols), list(obs_cols))
  types = types or [None] * len(exp_cols)
  obs = [tuple(decode_observed(v, t) for v, t in zip(r, types)) for r in observed_rows]
  n_exp = sum(expected.values())
  if n_exp != len(obs):
    return 'row count differs: expected %d, observed %d' % (n_exp, len(obs))
  # exact rows first (fast path), then descriptor rows by search
  remaining = list(obs)
  inexact = []
  for erow, m in expected.items():
    if any(isinstance(x, _AggBox) or has_unordered(norm_value(x)) for x in erow):
      inexact.extend([erow] * m)
      continue
    target = tuple(norm_value(x) for x in erow)
    for _ in range(m):
      try:
        remaining.remove(target)
      except ValueError:
        return 'expected row %s (x%d) not found among observed rows' % (show_row(erow), m)
  if not inexact:
    return None if not remaining else 'unexpected observed rows %s' % (remaining[:3],)
  # small bipartite matching by backtracking
  cand = [[j for j, o in enumerate(remaining) if row_matches(e, o)] for e in inexact]
  order = sorted(range(len(inexact)), key=lambda i: len(cand[i]))
  used = set()
  budget = [20000]

  def go(_start):
    # iterative backtracking (a result may hold more descriptor rows than the interpreter's recursion limit)
    n = len(order)
    pos = [0] * n          # next candidate index to try at depth k
    chosen = [None] * n
    k = 0
    while True:
      if k == n:
        return True
      budget[0] -= 1
      if budget[0] < 0:
        return False
      cs = cand[order[k]]
      advanced = False
      while pos[k] < len(cs):
        j = cs[pos[k]]
        pos[k] += 1
        if j not in used:
          used.add(j)
          chosen[k] = j
          k += 1
          if k < n:
            pos[k] = 0
          advanced = True
          break
      if advanced:
        continue
      # exhausted at depth k: backtrack
      if k == 0:
        return False
      pos[k] = 0
      k -= 1
      used.discard(chosen[k])
      chosen[k] = None
  budget[0] = max(budget[0], 50 * len(order))
  if go(0):
    return None
  bad = next((inexact[i] for i in order if not cand[i]), inexact[order[0]])
  return 'no admissible matching; e.g. expected row %s has no counterpart among %s' % (show_row(bad), remaining[:4])


def show_row(row):
  return '(%s)' % ', '.join(show_value(unbox(x)) for x in row)


def show_value(v):
  if isinstance(v, Agg):
    return '%s%s' % (v.kind, show_value(v.data) if v.kind == 'exact' else [show_value(x) for x in v.data])
  if isinstance(v, tuple) and v and v[0] in ('L', 'LU'):
    return '%s[%s]' % ('unordered' if v[0] == 'LU' else '', ', '.join(show_value(x) for x in v[1]))
  if isinstance(v, tuple) and v and v[0] == 'R':
    return '{%s}' % ', '.join('%s: %s' % (f, show_value(x)) for f, x in v[1])
  return repr(v)


def show_table(table):
  return sorted('%s x%d' % (show_row(r), m) for r, m in table.items())
