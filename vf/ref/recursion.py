"""Reference semantics of recursion: T^k(empty) for the simultaneous immediate-consequence operator of a
recursive component, and the least fixpoint for monotone set-valued programs."""
from collections import Counter

from vf.gen import ir
from vf.ref import evaluator


def components(prog):
  """Strongly connected components (as sets) of the predicate dependency graph that contain a cycle."""
  direct = {}
  for r in prog['rules']:
    direct.setdefault(r['pred'], set()).update(ir.called_preds_rule(r))
  reach = {}

  def go(p, seen):
    for q in direct.get(p, ()):
      if q not in seen:
        seen.add(q)
        go(q, seen)
    return seen
  for p in direct:
    reach[p] = go(p, set())
  comps = []
  done = set()
  for p in direct:
    if p in done or p not in reach[p]:
      continue
    c = {q for q in reach[p] if p in reach.get(q, ())} | {p}
    comps.append(c)
    done |= c
  return comps


class RecursiveEvaluator:
  """Evaluates programs with (one or more, non-nested) recursive components by iteration."""

  def __init__(self, prog, depth_of, switches=None, **kw):
    self.prog = prog
    self.ev = evaluator.Evaluator(prog, switches=switches, **kw)
    self.comps = components(prog)
    self.depth_of = depth_of      # {frozenset(component): depth}
    self.final = {}

  def step(self, comp, tables):
    """One simultaneous application of the rules of the component to `tables`."""
    self.ev.overrides.update(tables)
    # anything cached that depends on the component must go (only non-component predicates are cached;
    # a predicate below the component never depends on it, one above is evaluated after the iteration)
    new = {}
    for p in comp:
      self.ev.steps = 0
      t = self.ev.compute(p)
      if sum(t.values()) > self.ev.max_total:
        raise evaluator.Capped()
      new[p] = t
    return new

  def iterate(self, comp, applications):
    tables = {p: Counter() for p in comp}
    history = []
    for _ in range(applications):
      tables = self.step(comp, tables)
      history.append(tables)
    return tables, history

  def fixpoint(self, comp, max_steps=80):
    tables = {p: Counter() for p in comp}
    for n in range(max_steps):
      new = self.step(comp, tables)
      if all(set(new[p]) == set(tables[p]) for p in comp):
        return new, n
      tables = new
    return None, max_steps

  def solve(self, comp, applications):
    tables, history = self.iterate(comp, applications)
    self.ev.overrides.update(tables)
    return tables, history

  def table(self, pred):
    return self.ev.table(pred)

  def columns(self, pred):
    return self.ev.columns(pred)
