"""Independent reference evaluator for the Logica fragment of vf/gen/ir.py.

Written from docs/learn/logica.md (see DESIGN 4.21 for the reading); shares no code with the compiler.
A predicate denotes a multiset of rows: Counter{tuple(values): multiplicity}, columns in head order of
the first rule.  Values: int, str, None, ('L', (v, ...)), ('R', ((field, v), ...)); booleans are 1/0.
Aggregated columns may hold aggregates.Agg descriptors (admissible answers) - see compare.py.
"""
from collections import Counter

from vf.gen import ir
from vf.ref import aggregates
from vf.ref.aggregates import Agg


class Unsupported(Exception):
  """The program leaves the fragment the evaluator defines (generator bug, not a verdict)."""


class Capped(Exception):
  """Multiplicity / size cap reached: the case is discarded, never judged."""


class Ambiguous(Exception):
  """A consumer depends on a tie choice: not judged."""


def canon(v):
  """Canonical representative for values read by a consumer."""
  if isinstance(v, _AggBox):
    v = v.agg
  if isinstance(v, Agg):
    if v.kind == 'exact':
      return v.data
    if v.kind in ('multiset', 'set'):
      # an aggregated list read by a consumer: element order is unspecified ('LU' = unordered list)
      return ('LU', tuple(sorted(v.data, key=sort_key)))
    raise Ambiguous()
  return v


def sort_key(v):
  if v is None:
    return (0, 0)
  if isinstance(v, (int, float)):
    return (1, v)
  if isinstance(v, str):
    return (2, v)
  return (3, repr(v))


def truthy(v):
  return v is not None and v != 0 and v is not False


class Evaluator:
  def __init__(self, prog, switches=None, max_rows=1500, max_steps=150000, max_total=4000, parent=None, subst=None):
    self.prog = prog
    self.parent = parent
    self.children = {}
    # functor applications  N := F(A: B, ...):  {N: (F, {A: B | ('const', value)})}
    self.makes = {}
    for a in prog.get('annotations', []):
      if a[0] == 'make':
        self.makes[a[1]] = (a[2], {x: (y if isinstance(y, str) else ('const', y)) for x, y in a[3]})
    self.switches = switches or {}
    self.rules = {}
    for r in prog['rules']:
      self.rules.setdefault(r['pred'], []).append(r)
    self.tables = {}
    self.cols = {}
    self.in_progress = set()
    self.max_rows = max_rows
    self.max_steps = max_steps
    self.max_total = max_total   # cap on the total multiplicity of one table (SQLite materialises every row)
    self.failed = {}
    self.steps = 0
    self.fresh = 0
    self.subst = dict(subst or {})   # predicate substitution of this context (functor semantics)
    self.overrides = {}   # explicit tables (recursion driver)
    self.stats = Counter()
    # @OrderBy / @Limit: {pred: [(column, descending)]}, {pred: k}; ordered[pred] = list of rows in order
    self.order_by = {}
    self.limit = {}
    self.ordered = {}
    for a in prog.get('annotations', []):
      if a[0] == 'OrderBy':
        keys = []
        for c in a[2]:
          if c == 'DESC':
            keys[-1] = (keys[-1][0], True)
          else:
            parts = c.split()
            keys.append((parts[0], len(parts) > 1 and parts[1].lower() == 'desc'))
        self.order_by[a[1]] = keys
      elif a[0] == 'Limit':
        self.limit[a[1]] = a[2]

  # ------------------------------------------------------------------------------------------
  def substituted(self, pred):
    """(context, target) if pred is an argument of an enclosing functor application, else None.
    Substitutions compose: a name not bound by the innermost application is looked up in the enclosing ones."""
    c = self
    while c is not None:
      if pred in c.subst:
        return c.parent, c.subst[pred]
      c = c.parent
    return None

  def columns(self, pred):
    sub = self.substituted(pred)
    if sub is not None:
      ctx, tgt = sub
      if isinstance(tgt, tuple):
        return ['logica_value']
      return ctx.columns(tgt)
    if pred in self.makes:
      return self.columns(self.makes[pred][0])
    if pred in self.cols:
      return self.cols[pred]
    rs = self.rules.get(pred)
    if not rs:
      raise Unsupported('no rules for %s' % pred)
    r = rs[0]
    cols = []
    pi = 0
    for n, _, _ in r['args']:
      if n is None:
        cols.append('col%d' % pi)
        pi += 1
      else:
        cols.append(n)
    if r.get('value') is not None:
      cols.append('logica_value')
    self.cols[pred] = cols
    return cols

  def is_injectible_only(self, pred):
    return self.prog.get('preds', {}).get(pred, {}).get('kind') == 'inj'

  def table(self, pred):
    """Multiset of rows of a concrete predicate, rows as tuples aligned with columns(pred)."""
    sub = self.substituted(pred)
    if sub is not None:
      # an argument of a functor application: its value is read in the context enclosing that application
      ctx, tgt = sub
      if isinstance(tgt, tuple):
        t = Counter()
        t[RowWithAgg([tgt[1]])] = 1
        return t
      return ctx.table(tgt)
    if pred in self.makes:
      # N := F(A: B): F with every use of A, direct or through the predicates F is built from, replaced by B
      if pred not in self.children:
        f, sigma = self.makes[pred]
        self.children[pred] = Evaluator(self.prog, switches=self.switches, max_rows=self.max_rows, max_steps=self.max_steps,
                                        max_total=self.max_total, parent=self, subst=sigma)
      return self.children[pred].table(self.makes[pred][0])
    if pred in self.overrides:
      return self.overrides[pred]
    if pred in self.tables:
      return self.tables[pred]
    if pred in self.failed:
      raise self.failed[pred]
    if pred in self.in_progress:
      raise Unsupported('recursive predicate %s reached without a recursion driver' % pred)
    self.in_progress.add(pred)
    try:
      self.steps = 0
      t = self.compute(pred)
      if sum(t.values()) > self.max_total:
        raise Capped()
      if pred in self.order_by or pred in self.limit:
        t = self.apply_order_limit(pred, t)
    except (Capped, Ambiguous) as e:
      self.failed[pred] = e
      raise
    finally:
      self.in_progress.discard(pred)
    self.tables[pred] = t
    return t

  def apply_order_limit(self, pred, t):
    """order_by / limit: the predicate is its first K rows in the requested order."""
    cols = self.columns(pred)
    rows = []
    for row, m in t.items():
      rows.extend([row] * m)
    keys = self.order_by.get(pred)
    k = self.limit.get(pred)
    if keys:
      idx = [(cols.index(c), d) for c, d in keys]
      for i, desc in reversed(idx):
        rows.sort(key=lambda r: sort_key(canon(r[i])), reverse=desc)
      # the order must be total up to identical rows, else the first K rows are a tie choice: if the group of
      # rows sharing the order key of row K-1 extends beyond K, all rows of that group must be identical
      if k is not None and 0 < k < len(rows):
        def kk(r):
          return tuple(sort_key(canon(r[i])) for i, _ in idx)
        edge = kk(rows[k - 1])
        group = [r for r in rows if kk(r) == edge]
        if kk(rows[k]) == edge and len(set(group)) > 1:
          raise Ambiguous()
    elif k is not None and 0 < k < len(rows) and len(set(rows)) > 1:
      raise Ambiguous()          # limit without order: which rows survive is unspecified
    if k is not None:
      rows = rows[:k]
    self.ordered[pred] = rows
    out = Counter()
    for r in rows:
      out[r] += 1
    return out

  def compute(self, pred):
    rules = self.rules.get(pred)
    if not rules:
      raise Unsupported('no rules for %s' % pred)
    cols = self.columns(pred)
    distinct = any(r.get('distinct') for r in rules)
    if not distinct:
      out = Counter()
      total = 0
      for r in rules:
        hr = hoist_rule(r, self)
        for env, m in self.solve_rule(hr):
          row = self.head_row(hr, env, cols)
          out[row] += m
          total += m
          if len(out) > self.max_rows or total > self.max_total:
            raise Capped()
      return out
    # aggregating predicate: group over the union of all bodies
    groups = {}
    order = []
    agg_ops = {}
    for r in rules:
      hr = hoist_rule(r, self)
      fields = self.head_fields(hr)
      for c, (e, a) in fields.items():
        if a is not None:
          agg_ops.setdefault(c, a)
      for env, m in self.solve_rule(hr):
        key = []
        vals = {}
        for c in cols:
          if c not in fields:
            raise Unsupported('rule of %s lacks column %s' % (pred, c))
          e, a = fields[c]
          v = self.eval(e, env, LevelScope(set(env)))
          if a is None:
            key.append(canon(v))
          else:
            vals[c] = canon(v)
        key = tuple(key)
        if key not in groups:
          groups[key] = {c: [] for c in cols if fields[c][1] is not None}
          order.append(key)
          if len(groups) > self.max_rows:
            raise Capped()
        for c, v in vals.items():
          if m > 10000:
            raise Capped()
          groups[key][c].extend([v] * m)
    if not order and all(c in agg_ops for c in cols):
      # no key columns and no solution: SQL yields one row of empty aggregates, the set-builder reading
      # yields no row; the documentation does not say - not judged
      raise Ambiguous()
    out = Counter()
    for key in order:
      row = []
      ki = 0
      for c in cols:
        if c in agg_ops:
          row.append(aggregates.aggregate(agg_ops[c], groups[key].get(c, []), self.switches))
        else:
          row.append(key[ki])
          ki += 1
      out[RowWithAgg(row)] += 1
    return out

  def head_fields(self, r):
    fields = {}
    pi = 0
    for n, e, a in r['args']:
      if n is None:
        fields['col%d' % pi] = (e, a)
        pi += 1
      else:
        fields[n] = (e, a)
    if r.get('value') is not None:
      fields['logica_value'] = (r['value'][0], r['value'][1])
    return fields

  def head_row(self, r, env, cols):
    fields = self.head_fields(r)
    row = []
    scope = LevelScope(set(env))
    for c in cols:
      if c not in fields:
        raise Unsupported('rule of %s lacks column %s' % (r['pred'], c))
      row.append(self.eval(fields[c][0], env, scope))
    return RowWithAgg(row)

  # ------------------------------------------------------------------------------------------
  def solve_rule(self, r):
    """Yields (env, multiplicity) over the solutions of the body (one solution for a fact)."""
    level = set()
    for _, e, _ in r['args']:
      ir.expr_vars(e, level, enter_combines=False)
    if r.get('value') is not None:
      ir.expr_vars(r['value'][0], level, enter_combines=False)
    body = r.get('body')
    if body is None:
      return [({}, 1)]
    return self.solve_prop(body, {}, LevelScope(level))

  def solve_prop(self, p, env, scope):
    """All solutions of proposition p extending env. scope: LevelScope of the enclosing level
    (its `visible` are the variables mentioned at enclosing levels, including this level's head)."""
    lits = flatten_and(p)
    level = set(scope.visible)
    for l in lits:
      ir.prop_vars(l, level, enter_combines=False)
    return self._solve(lits, env, LevelScope(level))

  def _solve(self, lits, env, scope):
    if not lits:
      yield env, 1
      return
    self.steps += 1
    if self.steps > self.max_steps:
      raise Capped()
    # structural literals are expanded in place: nested conjunction, disjunction (DNF: one branch per
    # alternative, multiplicities add), call of an injectible-only predicate (= its body)
    for i, l in enumerate(lits):
      k = l[0]
      if k == 'and':
        yield from self._solve(lits[:i] + flatten_and(l) + lits[i + 1:], env, scope)
        return
      if k == 'call' and self.substituted(l[1]) is None and self.is_injectible_only(l[1]):
        extra, new_vars = self.injection_literals(l[1], l)
        yield from self._solve(lits[:i] + extra + lits[i + 1:], env, LevelScope(scope.visible | new_vars))
        return
    for i, l in enumerate(lits):
      if l[0] == 'or':
        rest = lits[:i] + lits[i + 1:]
        for alt in l[1]:
          alt_lits = flatten_and(alt)
          vis = set(scope.visible)
          for q in alt_lits:
            ir.prop_vars(q, vis, enter_combines=False)
          yield from self._solve(alt_lits + rest, env, LevelScope(vis))
        return
    for i, l in enumerate(lits):
      if self.ready(l, env, scope):
        rest = lits[:i] + lits[i + 1:]
        for env2, m in self.step(l, env, scope):
          for env3, m2 in self._solve(rest, env2, scope):
            yield env3, m * m2
        return
    raise Unsupported('no evaluable literal among %r with %r bound' % (lits, sorted(env)))

  def free_vars(self, x, scope, is_prop=False):
    """Variables of x that belong to the enclosing scope (everything outside nested combines, plus
    the visible ones inside them)."""
    outside = ir.prop_vars(x, None, enter_combines=False) if is_prop else ir.expr_vars(x, None, enter_combines=False)
    everything = ir.prop_vars(x, None, True) if is_prop else ir.expr_vars(x, None, True)
    return outside | (everything & scope.visible)

  def evaluable(self, e, env, scope):
    return all(v in env for v in self.free_vars(e, scope))

  def ready(self, l, env, scope):
    k = l[0]
    if k == 'call':
      # variables passed directly are bound by the call itself; other arguments are constraints
      # on the row and may mention those variables (P(x, x + 1))
      own = {e[1] for _, e in l[2] if e[0] == 'var'}
      for _, e in l[2]:
        if e[0] == 'var':
          continue
        if not all(v in env or v in own for v in self.free_vars(e, scope)):
          return False
      return True
    if k == 'cmp':
      a, b = l[2], l[3]
      ea, eb = self.evaluable(a, env, scope), self.evaluable(b, env, scope)
      if ea and eb:
        return True
      if l[1] == '==':
        if a[0] == 'var' and a[1] not in env and eb:
          return True
        if b[0] == 'var' and b[1] not in env and ea:
          return True
      return False
    if k == 'in':
      if not self.evaluable(l[2], env, scope):
        return False
      return self.evaluable(l[1], env, scope) or (l[1][0] == 'var' and l[1][1] not in env)
    if k in ('not', 'imp'):
      inner = l[1] if k == 'not' else ('and', (l[1], l[2]))
      every = ir.prop_vars(inner, None, True)
      return all(v in env for v in (every & scope.visible))
    if k in ('isnull', 'notnull'):
      return self.evaluable(l[1], env, scope)
    raise Unsupported('literal %r' % (l,))

  def step(self, l, env, scope):
    k = l[0]
    if k == 'call':
      yield from self.step_call(l, env, scope)
    elif k == 'cmp':
      op, a, b = l[1], l[2], l[3]
      ea, eb = self.evaluable(a, env, scope), self.evaluable(b, env, scope)
      if ea and eb:
        if op == '==' and a[0] == 'var' and a == b:
          # unification of a variable with itself constrains nothing (also when its value is null): DESIGN 4.21 rule 13
          yield env, 1
          return
        va, vb = canon(self.eval(a, env, scope)), canon(self.eval(b, env, scope))
        if truthy(compare(op, va, vb)):
          yield env, 1
        elif (op == '==' and va is None and vb is None and a[0] == 'var' and b[0] == 'var'
              and self.switches.get('null_unifies_with_null')):
          yield env, 1      # recorded deviation (see step_call)
      elif op == '==':
        if ea:
          a, b = b, a
        v = canon(self.eval(b, env, scope))
        env2 = dict(env)
        env2[a[1]] = v
        yield env2, 1
      else:
        raise Unsupported('comparison not evaluable')
    elif k == 'in':
      lst = canon(self.eval(l[2], env, scope))
      if lst is None:
        return
      if not (isinstance(lst, tuple) and lst[0] in ('L', 'LU')):
        raise Unsupported('in over non-list %r' % (lst,))
      if self.evaluable(l[1], env, scope):
        x = canon(self.eval(l[1], env, scope))
        n = sum(1 for y in lst[1] if truthy(compare('==', x, y)))
        if n:
          yield env, n
      else:
        for y in lst[1]:
          env2 = dict(env)
          env2[l[1][1]] = y
          yield env2, 1
    elif k == 'not':
      if not self.has_solution(l[1], env, scope):
        yield env, 1
    elif k == 'imp':
      # A => B  is  ~(A, ~B)
      inner = ('and', (l[1], ('not', l[2])))
      if not self.has_solution(inner, env, scope):
        yield env, 1
    elif k == 'isnull':
      if canon(self.eval(l[1], env, scope)) is None:
        yield env, 1
    elif k == 'notnull':
      if canon(self.eval(l[1], env, scope)) is not None:
        yield env, 1
    else:
      raise Unsupported('literal %r' % (l,))

  def _level_for(self, p, scope):
    level = set(scope.visible)
    for q in flatten_and(p):
      ir.prop_vars(q, level, enter_combines=False)
    return LevelScope(level)

  def has_solution(self, p, env, scope):
    """Negation: the inner proposition is a combine body; variables not visible outside are local."""
    inner_env = {v: env[v] for v in env if v in scope.visible}
    for _ in self.solve_prop(p, inner_env, LevelScope(set(scope.visible))):
      return True
    return False

  def step_call(self, l, env, scope):
    pred = l[1]
    cols = self.columns(pred)
    table = self.table(pred)
    # positions addressed by the call
    want = []
    pi = 0
    for n, e in l[2]:
      c = ('col%d' % pi) if n is None else n
      if n is None:
        pi += 1
      if c not in cols:
        raise Unsupported('%s has no column %s' % (pred, c))
      want.append((cols.index(c), e))
    self.stats['calls'] += 1
    want.sort(key=lambda ie: 0 if ie[1][0] == 'var' else 1)
    for row, m in table.items():
      env2 = env
      ok = True
      for idx, e in want:
        v = canon(row[idx])
        if e[0] == 'var' and e[1] not in env2:
          if env2 is env:
            env2 = dict(env)
          env2[e[1]] = v
        else:
          w = canon(self.eval(e, env2, scope))
          if not truthy(compare('==', v, w)):
            if self.switches.get('null_unifies_with_null') and v is None and w is None and e[0] == 'var':
              continue      # recorded deviation: a repeated variable holding null passes once the callee is inlined
            ok = False
            break
      if ok:
        yield env2, m

  def injection_literals(self, pred, l):
    """A call to an injectible-only predicate means its body with the arguments substituted."""
    rs = self.rules[pred]
    if len(rs) != 1 or rs[0].get('distinct'):
      raise Unsupported('injectible predicate %s must have one non-aggregating rule' % pred)
    self.fresh += 1
    r = rs[0]
    mapping = {v: '%s__inj%d' % (v, self.fresh) for v in ir.rule_vars(r)}
    r = ir.rename_vars_rule(r, mapping)
    r = hoist_rule(r, self)
    fields = self.head_fields(r)
    lits = []
    pi = 0
    for n, e in l[2]:
      c = ('col%d' % pi) if n is None else n
      if n is None:
        pi += 1
      if c not in fields:
        raise Unsupported('%s has no argument %s' % (pred, c))
      lits.append(('cmp', '==', fields[c][0], e))
    if r.get('body') is not None:
      lits.extend(flatten_and(r['body']))
    new_vars = set()
    for q in lits:
      ir.prop_vars(q, new_vars, enter_combines=False)
    return lits, new_vars

  # ------------------------------------------------------------------------------------------
  def eval(self, e, env, scope):
    k = e[0]
    if k == 'num' or k == 'str':
      return e[1]
    if k == 'bool':
      return 1 if e[1] else 0
    if k == 'null':
      return None
    if k == 'var':
      if e[1] not in env:
        raise Unsupported('unbound variable %s' % e[1])
      return env[e[1]]
    if k == 'list':
      return ('L', tuple(canon(self.eval(x, env, scope)) for x in e[1]))
    if k == 'rec':
      return ('R', tuple((f, canon(self.eval(x, env, scope))) for f, x in e[1]))
    if k == 'arrow':
      return ('R', (('arg', canon(self.eval(e[1], env, scope))), ('value', canon(self.eval(e[2], env, scope)))))
    if k == 'bin':
      a, b = canon(self.eval(e[2], env, scope)), canon(self.eval(e[3], env, scope))
      return binop(e[1], a, b)
    if k == 'cmpe':
      a, b = canon(self.eval(e[2], env, scope)), canon(self.eval(e[3], env, scope))
      return compare(e[1], a, b)
    if k == 'not_e':
      a = canon(self.eval(e[1], env, scope))
      return None if a is None else (0 if truthy(a) else 1)
    if k == 'neg':
      a = canon(self.eval(e[1], env, scope))
      if a is None:
        return None
      if isinstance(a, (str, tuple)):
        raise Unsupported('unary minus on a non-number')
      return -a
    if k == 'field':
      r = canon(self.eval(e[1], env, scope))
      if r is None:
        return None
      if not (isinstance(r, tuple) and r[0] == 'R'):
        raise Unsupported('field of non-record')
      d = dict(r[1])
      if e[2] not in d:
        raise Unsupported('record lacks field %s' % e[2])
      return d[e[2]]
    if k == 'if':
      c = canon(self.eval(e[1], env, scope))
      return self.eval(e[2], env, scope) if truthy(c) else self.eval(e[3], env, scope)
    if k == 'ine':
      x = canon(self.eval(e[1], env, scope))
      lst = canon(self.eval(e[2], env, scope))
      if lst is None or x is None:
        return None
      return 1 if any(truthy(compare('==', x, y)) for y in lst[1]) else 0
    if k == 'comb':
      inner_env = {v: env[v] for v in env if v in scope.visible}
      vals = []
      body_scope = LevelScope(set(scope.visible) | ir.expr_vars(e[2], None, enter_combines=False))
      n = 0
      for env2, m in self.solve_prop(e[3], inner_env, body_scope):
        sc2 = LevelScope(set(env2) | body_scope.visible)
        v = canon(self.eval(e[2], env2, sc2))
        n += m
        if n > 20000:
          raise Capped()
        vals.extend([v] * m)
      return aggregates.aggregate(e[1], vals, self.switches)
    if k == 'builtin':
      from vf.ref import builtins
      return builtins.call(e[1], [canon(self.eval(x, env, scope)) for x in e[2]], self.switches)
    if k == 'fcall':
      raise Unsupported('functional call left after hoisting')
    raise Unsupported('expr %r' % (e,))


class LevelScope:
  """visible: the variables mentioned at this level or an enclosing one (lexical scope)."""
  __slots__ = ('visible',)

  def __init__(self, visible):
    self.visible = visible


class RowWithAgg(tuple):
  """A row; hashable even when it holds Agg descriptors (by identity of repr)."""

  def __new__(cls, items):
    return super().__new__(cls, tuple(_hashable(x) for x in items))


class _AggBox:
  __slots__ = ('agg', '_key')

  def __init__(self, agg):
    self.agg = agg
    self._key = (agg.kind, repr(agg.data))

  def __hash__(self):
    return hash(self._key)

  def __eq__(self, other):
    return isinstance(other, _AggBox) and self._key == other._key

  def __repr__(self):
    return repr(self.agg)


def _hashable(x):
  if isinstance(x, Agg):
    if x.kind == 'exact':
      return x.data
    return _AggBox(x)
  return x


def unbox(x):
  return x.agg if isinstance(x, _AggBox) else x


def canon_row_value(x):
  return canon(unbox(x))


def flatten_and(p):
  if p[0] == 'and':
    out = []
    for q in p[1]:
      out.extend(flatten_and(q))
    return out
  return [p]


def compare(op, a, b):
  """SQL three-valued comparison: None if an operand is null, else 1/0."""
  if a is None or b is None:
    return None
  if isinstance(a, tuple) or isinstance(b, tuple):
    raise Unsupported('comparison of composite values is outside the fragment')
  if isinstance(a, str) != isinstance(b, str):
    raise Unsupported('comparison of %r with %r mixes types' % (a, b))
  if op in ('==', '='):
    return 1 if a == b else 0
  if op == '!=':
    return 1 if a != b else 0
  if op == '<':
    return 1 if a < b else 0
  if op == '<=':
    return 1 if a <= b else 0
  if op == '>':
    return 1 if a > b else 0
  if op == '>=':
    return 1 if a >= b else 0
  raise Unsupported('comparison %s' % op)


def binop(op, a, b):
  if op == '&&':
    if (a is not None and not truthy(a)) or (b is not None and not truthy(b)):
      return 0
    if a is None or b is None:
      return None
    return 1
  if op == '||':
    if truthy(a) or truthy(b):
      return 1
    if a is None or b is None:
      return None
    return 0
  if a is None or b is None:
    return None
  if op == '++':
    if not (isinstance(a, str) and isinstance(b, str)):
      raise Unsupported('++ on non-strings')
    return a + b
  if isinstance(a, str) or isinstance(b, str) or isinstance(a, tuple) or isinstance(b, tuple):
    raise Unsupported('arithmetic on non-numbers')
  if op == '+':
    return a + b
  if op == '-':
    return a - b
  if op == '*':
    return a * b
  raise Unsupported('operator %s' % op)


# ---------------------------------------------------------------------------------------------
# hoisting of functional calls: F(e) inside an expression is an extra conjunct F(e, logica_value: v)
# in the innermost enclosing rule body or combine body.

def hoist_rule(rule, ev):
  counter = [0]

  def fresh():
    counter[0] += 1
    ev.fresh += 1
    return 'fv__%d_%d' % (ev.fresh, counter[0])

  def h_expr(e, acc):
    """Returns e without fcalls at this level; hoisted calls appended to acc. Combines get their own level."""
    k = e[0]
    if k in ('num', 'str', 'bool', 'null', 'var'):
      return e
    if k == 'fcall':
      args = tuple((n, h_expr(x, acc)) for n, x in e[2])
      v = fresh()
      acc.append(('call', e[1], args + (('logica_value', ('var', v)),)))
      return ('var', v)
    if k == 'comb':
      inner_acc = []
      inner = h_expr(e[2], inner_acc)
      body = h_prop(e[3])
      if inner_acc:
        body = ('and', tuple(ir_flat(body)) + tuple(inner_acc))
      return ('comb', e[1], inner, body) + tuple(e[4:])
    if k == 'list':
      return ('list', tuple(h_expr(x, acc) for x in e[1]))
    if k == 'rec':
      return ('rec', tuple((f, h_expr(x, acc)) for f, x in e[1]))
    if k in ('bin', 'cmpe'):
      return (k, e[1], h_expr(e[2], acc), h_expr(e[3], acc))
    if k in ('not_e', 'neg'):
      return (k, h_expr(e[1], acc))
    if k == 'field':
      return (k, h_expr(e[1], acc), e[2])
    if k == 'if':
      return (k, h_expr(e[1], acc), h_expr(e[2], acc), h_expr(e[3], acc))
    if k == 'builtin':
      return (k, e[1], tuple(h_expr(x, acc) for x in e[2]))
    if k in ('arrow', 'ine'):
      return (k, h_expr(e[1], acc), h_expr(e[2], acc))
    raise Unsupported('expr %r' % (e,))

  def h_lit(p, acc):
    k = p[0]
    if k == 'call':
      return ('call', p[1], tuple((n, h_expr(x, acc)) for n, x in p[2]))
    if k == 'cmp':
      return ('cmp', p[1], h_expr(p[2], acc), h_expr(p[3], acc))
    if k == 'in':
      return ('in', h_expr(p[1], acc), h_expr(p[2], acc))
    if k in ('isnull', 'notnull'):
      return (k, h_expr(p[1], acc))
    if k == 'not':
      return ('not', h_prop(p[1]))
    if k == 'imp':
      return ('imp', h_prop(p[1]), h_prop(p[2]))
    if k == 'or':
      return ('or', tuple(h_prop(q) for q in p[1]))
    if k == 'and':
      return h_prop(p)
    raise Unsupported('prop %r' % (p,))

  def h_prop(p):
    """A conjunction level: hoisted calls of its literals join this conjunction."""
    lits = ir_flat(p)
    acc = []
    out = [h_lit(l, acc) for l in lits]
    out.extend(acc)
    if len(out) == 1:
      return out[0]
    return ('and', tuple(out))

  acc = []
  r = dict(rule)
  r['args'] = [(n, h_expr(e, acc), a) for n, e, a in rule['args']]
  if rule.get('value') is not None:
    r['value'] = (h_expr(rule['value'][0], acc), rule['value'][1])
  body = rule.get('body')
  if body is not None:
    hb = h_prop(body)
    if acc:
      hb = ('and', tuple(ir_flat(hb)) + tuple(acc))
    r['body'] = hb
  elif acc:
    r['body'] = ('and', tuple(acc)) if len(acc) > 1 else acc[0]
  return r


def ir_flat(p):
  return flatten_and(p)
