"""Trace specification for workflow execution (C14), independent of concertina_lib.

A trace is the list of action names in the order the sql_runner received them.
signals: {iteration_name: index of the trace event during which the stop file became non-empty}
"""


def check_trace(config, iterations, trace, signals=None, reads=None):
  """Returns a list of (what, details) violations.

  config: list of {'name', 'requires', 'action': {'launcher': ...}}
  iterations: {name: {'predicates': [...], 'repetitions': n, ...}}
  reads: optional {event index: set of action names whose tables the statement was observed to read}
  """
  signals = signals or {}
  out = []
  actions = {a['name']: a for a in config}
  runnable = {n for n, a in actions.items() if a.get('action', {}).get('launcher') == 'query'}
  member_of = {}
  for it, spec in iterations.items():
    for p in spec['predicates']:
      if p in actions:
        member_of[p] = it
  starts = {}
  for i, n in enumerate(trace):
    if n not in runnable:
      out.append(('an unknown or non-runnable action was started', {'action': n, 'at': i}))
      continue
    starts.setdefault(n, []).append(i)

  # (1) inputs first: every requirement that is itself a statement has run before; a requirement
  # that is iterated (and the reader is outside that iteration) must have finished all its rounds.
  for n in runnable:
    if n not in starts:
      continue
    first = starts[n][0]
    for r in actions[n].get('requires', []):
      if r not in runnable:
        continue  # data node: nothing to wait for
      if r not in starts:
        out.append(('a statement started although one of its inputs never ran', {'action': n, 'input': r}))
        continue
      if member_of.get(r) is not None and member_of.get(r) == member_of.get(n):
        # inside one iteration, the declared order decides (checked below); the first round still
        # needs the input to exist only if the input is declared earlier in the round.
        order = iterations[member_of[n]]['predicates']
        if order.index(r) < order.index(n) and starts[r][0] > first:
          out.append(('a member started before the earlier member it reads', {'action': n, 'input': r}))
        continue
      if member_of.get(r) is not None:
        if starts[r][-1] > first:
          out.append(('a statement started before the iteration producing its input had finished',
                      {'action': n, 'input': r, 'action_first_start': first, 'input_last_start': starts[r][-1]}))
      elif starts[r][0] > first:
        out.append(('a statement started before its input was produced',
                    {'action': n, 'input': r, 'action_first_start': first, 'input_first_start': starts[r][0]}))

  # observed reads (compiled plans): a statement may only read tables already produced
  if reads:
    for i, tables in reads.items():
      for t in tables:
        if t in runnable and (t not in starts or starts[t][0] >= i) and t != trace[i]:
          out.append(('a statement read a table before the statement producing it ran',
                      {'action': trace[i], 'at': i, 'table': t}))

  # (2) non-iterated statements run exactly once
  for n in runnable:
    if n in member_of:
      continue
    k = len(starts.get(n, []))
    if k != 1:
      out.append(('a non-iterated statement ran %d times' % k, {'action': n}))

  # (3) iterations: declared order, declared number of rounds, or stop on signal
  for it, spec in iterations.items():
    order = [p for p in spec['predicates'] if p in runnable]
    if not order:
      continue
    reps = spec['repetitions']
    sub = [(i, n) for i, n in enumerate(trace) if member_of.get(n) == it]
    seq = [n for _, n in sub]
    full = order * reps
    if len(seq) > len(full):
      out.append(('an iteration ran more than its declared repetitions (no termination within the bound)',
                  {'iteration': it, 'starts': len(seq), 'allowed': len(full)}))
      continue
    if seq != full[:len(seq)]:
      k = next(j for j in range(len(seq)) if seq[j] != full[j])
      out.append(('the members of an iteration did not run in their declared order',
                  {'iteration': it, 'position': k, 'expected': full[k], 'got': seq[k], 'declared': order}))
      continue
    if seq == full:
      continue
    s = signals.get(it)
    if s is None:
      out.append(('an iteration stopped before its declared repetitions although no stop signal was raised',
                  {'iteration': it, 'starts': len(seq), 'declared': len(full)}))
      continue
    # stopped early with a signal raised during event s
    after = {}
    for i, n in sub:
      if i > s:
        after[n] = after.get(n, 0) + 1
    late = {n: k for n, k in after.items() if k > 1}
    if late:
      out.append(('after the stop signal was raised a member started more than once more',
                  {'iteration': it, 'signal_at': s, 'late_starts': late}))
  # a raised signal must stop the iteration (each member at most once more), also when the count was reached
  for it, s in signals.items():
    if it not in iterations:
      continue
    after = {}
    for i, n in enumerate(trace):
      if i > s and member_of.get(n) == it:
        after[n] = after.get(n, 0) + 1
    late = {n: k for n, k in after.items() if k > 1}
    if late and not any(w[0].startswith('after the stop signal') for w in out):
      out.append(('after the stop signal was raised a member started more than once more',
                  {'iteration': it, 'signal_at': s, 'late_starts': late}))
  return out


def max_starts(config, iterations):
  """Logical termination bound: no run may start more statements than this."""
  actions = {a['name'] for a in config if a.get('action', {}).get('launcher') == 'query'}
  member = {}
  for it, spec in iterations.items():
    for p in spec['predicates']:
      member[p] = spec['repetitions']
  return sum(member.get(a, 1) for a in actions)
