"""Reference definitions of Logica's built-in aggregates (written from docs/learn/logica.md).

Every function takes the list of input values (one per solution, nulls included) and returns an
`Agg` describing the admissible answers:
  Agg('exact', v)        the value must be v
  Agg('multiset', items) a list with exactly these elements in any order
  Agg('set', items)      a list with exactly these distinct elements in any order
  Agg('oneof', values)   any of these (ties)
  Agg('klist', (k, pairs, desc)) ArgMinK/ArgMaxK: list of k args ordered by value, ties in any order
Documented rules: built-in aggregates ignore null inputs and yield null when nothing is aggregated.
Deviation switches (only consulted for findings listed in known_findings.json):
  sqlite_count_empty_is_zero, sqlite_list_empty_is_empty, sqlite_set_empty_is_empty,
  sqlite_list_keeps_nulls, sqlite_set_keeps_nulls
"""


class Agg:
  def __init__(self, kind, data):
    self.kind = kind
    self.data = data

  def __repr__(self):
    return 'Agg(%s, %r)' % (self.kind, self.data)


K_AGGS = {'ArgMin2': ('ArgMin', 2), 'ArgMax2': ('ArgMax', 2), 'ArgMin3': ('ArgMin', 3)}
K_AGG_PRELUDE = {'ArgMin2': 'ArgMin2(x) = ArgMinK(x, 2);', 'ArgMax2': 'ArgMax2(x) = ArgMaxK(x, 2);', 'ArgMin3': 'ArgMin3(x) = ArgMinK(x, 3);'}


def L(items):
  return ('L', tuple(items))


def aggregate(op, values, switches=None):
  sw = switches or {}
  op = op.rstrip('=')
  if op == '+':
    op = 'Sum'
  if op in ('ArgMin', 'ArgMax'):
    # values are ('R', (('arg', a), ('value', v))) records or None
    pairs = []
    for r in values:
      if r is None:
        continue
      d = dict(r[1])
      if d.get('value') is None:
        continue
      pairs.append((d.get('arg'), d['value']))
    if not pairs:
      return Agg('exact', None)
    best = min(v for _, v in pairs) if op == 'ArgMin' else max(v for _, v in pairs)
    cands = []
    for a, v in pairs:
      if v == best and a not in cands:
        cands.append(a)
    return Agg('oneof', cands) if len(cands) > 1 else Agg('exact', cands[0])
  if op in K_AGGS:
    # user-defined through ArgMinK / ArgMaxK: the k args with the smallest (largest) values, in that order;
    # ties may come in any order and, at the cut, any of the tied args may be kept
    base, k = K_AGGS[op]
    pairs = []
    for r in values:
      if r is None:
        continue
      d = dict(r[1])
      if d.get('value') is None:
        continue
      pairs.append((d.get('arg'), d['value']))
    import itertools
    from vf.ref.evaluator import Ambiguous
    if not pairs:
      raise Ambiguous()      # a group whose values are all null: not described by the documentation, not judged
    groups = {}
    for a, v in pairs:
      groups.setdefault(v, []).append(a)
    cands = [()]
    for v in sorted(groups, reverse=(base == 'ArgMax')):
      if all(len(c) >= k for c in cands):
        break
      g = groups[v]
      if len(g) > 5:
        raise Ambiguous()
      perms = set(itertools.permutations(g))
      cands = list({(c + p)[:k] for c in cands for p in perms})
    outs = []
    for c in cands:
      if c not in outs:
        outs.append(c)
    outs = [L(list(c)) for c in outs]
    return Agg('oneof', outs) if len(outs) > 1 else Agg('exact', outs[0])
  nn = [v for v in values if v is not None]
  if op == 'Sum':
    return Agg('exact', sum(nn) if nn else None)
  if op == 'Min':
    return Agg('exact', min(nn) if nn else None)
  if op == 'Max':
    return Agg('exact', max(nn) if nn else None)
  if op == 'Count':
    if not nn:
      return Agg('exact', 0 if sw.get('sqlite_count_empty_is_zero') else None)
    return Agg('exact', len(set(nn)))
  if op == 'List':
    items = list(values) if sw.get('sqlite_list_keeps_nulls') else nn
    if not items:
      return Agg('exact', L([]) if sw.get('sqlite_list_empty_is_empty') else None)
    return Agg('multiset', items)
  if op == 'Set':
    items = list(values) if sw.get('sqlite_set_keeps_nulls') else nn
    if not items:
      return Agg('exact', L([]) if sw.get('sqlite_set_empty_is_empty') else None)
    out = []
    for v in items:
      if v not in out:
        out.append(v)
    return Agg('set', out)
  raise ValueError('unknown aggregate %r' % op)


def matches(agg, observed):
  """observed: canonical value (None, int, str, ('L', ...), ('R', ...))."""
  if isinstance(agg, Agg):
    if agg.kind == 'exact':
      return agg.data == observed
    if agg.kind == 'oneof':
      return any(observed == v for v in agg.data)
    if observed is None or not isinstance(observed, tuple) or observed[0] != 'L':
      return False
    if agg.kind == 'multiset':
      return sorted(map(repr, observed[1])) == sorted(map(repr, agg.data))
    if agg.kind == 'set':
      return (sorted(map(repr, observed[1])) == sorted(map(repr, agg.data)))
    raise ValueError(agg.kind)
  return agg == observed
