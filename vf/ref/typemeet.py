"""Reference meet on plain type terms (independent of reference_algebra.py).

Terms:  atoms 'Any' 'Singular' 'Sequential' 'Num' 'Str' 'Bool' 'Time'
        ('L', t)                      list of t
        ('O', ((field, t), ...))      open record  (fields sorted by str(field))
        ('C', ((field, t), ...))      closed record
BOTTOM is the clash.  An instance-based reading: Any is every type; Singular = scalars and records;
Sequential = Str and lists; an open record admits more fields, a closed one does not.
"""

BOTTOM = '⊥'
SCALARS = ('Num', 'Str', 'Bool', 'Time')


def fkey(f):
  return ('%03d' % f) if isinstance(f, int) else f


def rec(kind, fields):
  return (kind, tuple(sorted(fields.items(), key=lambda kv: (isinstance(kv[0], int), fkey(kv[0])))))


def is_bottom(t):
  if t == BOTTOM:
    return True
  if isinstance(t, tuple):
    if t[0] == 'L':
      return is_bottom(t[1])
    return any(is_bottom(v) for _, v in t[1])
  return False


def meet(a, b):
  """Greatest common instance pattern, or BOTTOM."""
  if a == BOTTOM or b == BOTTOM:
    return BOTTOM
  if a == 'Any':
    return b
  if b == 'Any':
    return a
  if a == b and isinstance(a, str):
    return a
  if isinstance(a, str) and isinstance(b, str):
    s = {a, b}
    if s == {'Singular', 'Sequential'}:
      return 'Str'
    if 'Singular' in s:
      (o,) = s - {'Singular'}
      return o if o in SCALARS else BOTTOM
    if 'Sequential' in s:
      (o,) = s - {'Sequential'}
      return 'Str' if o == 'Str' else BOTTOM
    return BOTTOM
  if isinstance(a, str):
    a, b = b, a
  # a composite
  if isinstance(b, str):
    if b == 'Singular':
      return a if a[0] in ('O', 'C') else BOTTOM
    if b == 'Sequential':
      return a if a[0] == 'L' else BOTTOM
    return BOTTOM
  if a[0] == 'L' or b[0] == 'L':
    if a[0] != b[0]:
      return BOTTOM
    e = meet(a[1], b[1])
    return BOTTOM if is_bottom(e) else ('L', e)
  fa, fb = dict(a[1]), dict(b[1])
  if a[0] == 'O' and b[0] == 'O':
    kind = 'O'
  elif a[0] == 'C' and b[0] == 'C':
    if set(fa) != set(fb):
      return BOTTOM
    kind = 'C'
  else:
    o, c = (fa, fb) if a[0] == 'O' else (fb, fa)
    if not set(o) <= set(c):
      return BOTTOM
    kind = 'C'
  out = {}
  for f in set(fa) | set(fb):
    v = meet(fa.get(f, 'Any'), fb.get(f, 'Any'))
    if is_bottom(v):
      return BOTTOM
    out[f] = v
  return rec(kind, out)


def render(t):
  if isinstance(t, str):
    return t
  if t[0] == 'L':
    return '[%s]' % render(t[1])
  inner = ', '.join('%s: %s' % (f, render(v)) for f, v in t[1])
  if t[0] == 'O':
    return '{%s}' % (inner + ', ...' if inner else '...')
  return '{%s}' % inner


def depth(t):
  if isinstance(t, str):
    return 0
  if t[0] == 'L':
    return 1 + depth(t[1])
  return 1 + max([depth(v) for _, v in t[1]] or [0])
