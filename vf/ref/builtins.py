"""Reference definitions of the built-in functions on SQLite (written from the documentation;
engine-defined corners - integer division, C-style remainder - are stated explicitly)."""
from vf.ref.evaluator import Unsupported


def L(items):
  return ('L', tuple(items))


def is_list(v):
  return isinstance(v, tuple) and v and v[0] in ('L', 'LU')


def call(name, args, switches=None):
  a = args
  if name == 'Range':
    if a[0] is None:
      return None
    return L(range(max(0, a[0])))
  if name == 'Size':
    return None if a[0] is None else len(a[0][1])
  if name == 'Element':
    if a[0] is None or a[1] is None:
      return None
    if a[1] < 0:
      raise Unsupported('negative index is outside the defined domain')
    return a[0][1][a[1]] if a[1] < len(a[0][1]) else None
  if name == 'Sort':
    return None if a[0] is None else L(sorted(a[0][1]))
  if name == 'ArrayConcat':
    if a[0] is None or a[1] is None:
      return None
    return L(a[0][1] + a[1][1])
  if name == 'Join':
    if a[0] is None or a[1] is None:
      return None
    return a[1].join(str(x) for x in a[0][1])
  if name == 'Split':
    if a[0] is None or a[1] is None:
      return None
    if a[1] == '':
      raise Unsupported('empty separator')
    return L(a[0].split(a[1]))
  if name == 'ToString':
    return None if a[0] is None else str(a[0])
  if name == 'ToInt64':
    return None if a[0] is None else int(a[0])
  if name in ('Least', 'Greatest'):
    if any(x is None for x in a):
      return None      # SQLite's multi-argument MIN/MAX: null if any argument is null
    return min(a) if name == 'Least' else max(a)
  if name == 'Div':       # a / b on integers: SQLite integer division (truncates toward zero), null on zero divisor
    if a[0] is None or a[1] is None or a[1] == 0:
      return None
    q = abs(a[0]) // abs(a[1])
    return q if (a[0] >= 0) == (a[1] >= 0) else -q
  if name == 'Mod':       # C-style remainder (sign of the dividend), null on zero divisor
    if a[0] is None or a[1] is None or a[1] == 0:
      return None
    r = abs(a[0]) % abs(a[1])
    return r if a[0] >= 0 else -r
  raise Unsupported('built-in %s' % name)
