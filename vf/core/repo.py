"""Locating and importing the code under test (always the current working tree)."""
import os
import sys

VERIF_ROOT = os.path.dirname(os.path.dirname(os.path.dirname(os.path.abspath(__file__))))
PYTHON = '/venv/bin/python'


def repo_root():
  return os.environ.get('VERIF_REPO', '/repo')


def setup_path():
  """Put the repository first on sys.path, exactly as logica.py does in script mode."""
  r = repo_root()
  if r not in sys.path:
    sys.path.insert(0, r)
  deps = os.path.join(VERIF_ROOT, '.deps')
  if os.path.isdir(deps) and deps not in sys.path:
    sys.path.append(deps)
  return r


def scratch_dir(tag=''):
  """Scratch directory outside /repo and /verif, removed by the caller."""
  import tempfile
  base = os.environ.get('VERIF_SCRATCH', '/var/tmp')
  return tempfile.mkdtemp(prefix='vf-%s-%d-' % (tag, os.getpid()), dir=base)
