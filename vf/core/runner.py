"""Parent side: runs the shards of one check, aggregates, applies the known-findings file,
writes evidence and witnesses, prints the verdict lines and returns the exit code.

Exit codes: 0 held on everything explored (KNOWN-FINDING lines allowed), 1 VIOLATION,
2 INCONCLUSIVE (monitor not reached / watchdog), 3 harness error (broken check).
"""
import concurrent.futures
import importlib
import json
import os
import shutil
import signal
import subprocess
import sys
import time

from vf.core import repo
from vf.core.shard import derive_seed, stable_hash

ROOT = repo.VERIF_ROOT


def load_findings():
  path = os.path.join(ROOT, 'known_findings.json')
  if not os.path.exists(path):
    return []
  with open(path) as f:
    return json.load(f).get('findings', [])


def open_finding_keys(prop):
  return {f['key']: f for f in load_findings()
          if f.get('property') == prop and f.get('status') == 'open'}


def _run_one(prop, tier, seed, i, n, out_path, params, timeout_s, extra_env):
  env = dict(os.environ)
  env['PYTHONPATH'] = ROOT + (os.pathsep + env['PYTHONPATH'] if env.get('PYTHONPATH') else '')
  env['PYTHONHASHSEED'] = str(derive_seed(seed, prop, tier, i, 'hash') % 4294967295)
  env['PYTHONDONTWRITEBYTECODE'] = '1'
  env.update(extra_env or {})
  cmd = [repo.PYTHON, '-m', 'vf.core.shard', prop, tier, str(seed), str(i), str(n), out_path,
         json.dumps(params)]
  t0 = time.time()
  try:
    p = subprocess.run(cmd, env=env, cwd=ROOT, timeout=timeout_s, stdout=subprocess.PIPE,
                       stderr=subprocess.PIPE)
    return i, p.returncode, p.stdout[-4000:].decode('utf-8', 'replace'), \
        p.stderr[-8000:].decode('utf-8', 'replace'), time.time() - t0, False
  except subprocess.TimeoutExpired as e:
    return i, None, '', (e.stderr or b'')[-4000:].decode('utf-8', 'replace'), time.time() - t0, True


def merge_tables(dst, src):
  for t, rows in src.items():
    dt = dst.setdefault(t, {})
    for r, cols in rows.items():
      dr = dt.setdefault(r, {})
      for c, k in cols.items():
        dr[c] = dr.get(c, 0) + k


def run_check(prop, tier, seed, keep_out=False):
  t0 = time.time()
  mod = importlib.import_module('vf.checks.' + prop.lower())
  plan = mod.plan(tier, seed)
  n = plan['nshards']
  params = plan.get('params', {})
  timeout_s = plan.get('timeout_s', 1500)
  workers = min(plan.get('workers', 16), n)
  out_dir = repo.scratch_dir('run-' + prop)
  agg = {'evaluations': 0, 'nontrivial': set(), 'counters': {}, 'samples': [], 'violations': [],
         'notes': [], 'tables': {}, 'hashseeds': [], 'shards': n, 'shard_failures': [],
         'watchdog': [], 'aborts': []}
  try:
    if hasattr(mod, 'prepare'):
      prep = mod.prepare(tier, seed, out_dir)
      if prep:
        params = dict(params, **prep.get('params', {}))
        plan['env'] = dict(plan.get('env', {}), **prep.get('env', {}))
    with concurrent.futures.ThreadPoolExecutor(max_workers=workers) as ex:
      futs = []
      for i in range(n):
        out_path = os.path.join(out_dir, 'shard-%d.json' % i)
        futs.append(ex.submit(_run_one, prop, tier, seed, i, n, out_path, params, timeout_s,
                              plan.get('env')))
      for fut in concurrent.futures.as_completed(futs):
        i, rc, so, se, wall, timed_out = fut.result()
        out_path = os.path.join(out_dir, 'shard-%d.json' % i)
        journal = None
        if os.path.exists(out_path + '.journal'):
          try:
            with open(out_path + '.journal') as f:
              journal = json.load(f)
          except Exception:
            journal = None
        if timed_out:
          agg['watchdog'].append({'shard': i, 'wall_s': wall, 'case': journal})
          continue
        if not os.path.exists(out_path):
          # the shard process died: signal, sanitizer abort, os._exit, ...
          agg['aborts'].append({'shard': i, 'returncode': rc, 'stderr': se[-3000:],
                                'case': journal})
          continue
        with open(out_path) as f:
          res = json.load(f)
        if res.get('status') != 'ok':
          agg['shard_failures'].append({'shard': i, 'error': res.get('error'), 'case': journal})
        agg['evaluations'] += res['evaluations']
        agg['nontrivial'].update(res['nontrivial'])
        for k, v in res['counters'].items():
          agg['counters'][k] = agg['counters'].get(k, 0) + v
        merge_tables(agg['tables'], res.get('tables', {}))
        agg['samples'].extend(res['samples'][:2])
        agg['violations'].extend(res['violations'])
        agg['notes'].extend(res['notes'])
        agg['hashseeds'].append(int(res['hashseed']) if res.get('hashseed') else None)
  finally:
    if not keep_out:
      shutil.rmtree(out_dir, ignore_errors=True)

  return finish(mod, prop, tier, seed, agg, time.time() - t0)


def finish(mod, prop, tier, seed, agg, wall):
  known = open_finding_keys(prop)
  lines = []
  exit_code = 0
  inconclusive = []

  # process aborts: attributed to the journaled case; a check decides what they mean
  abort_is_violation = getattr(mod, 'ABORT_IS_VIOLATION', True)
  for a in agg['aborts']:
    if abort_is_violation and a['case'] is not None:
      key = None
      if hasattr(mod, 'classify_abort'):
        try:
          key = mod.classify_abort(a['case'], a['stderr'])
        except Exception:
          key = None
      agg['violations'].append({'key': key, 'what': 'process aborted (rc=%s) while running the journaled case' % a['returncode'],
                                'witness': {'property': prop, 'tier': tier, 'seed': seed, 'shard': a['shard'],
                                            'kind': 'abort', 'case': a['case'], 'stderr': a['stderr']}})
    else:
      agg['shard_failures'].append({'shard': a['shard'], 'error': 'shard died rc=%s: %s' % (a['returncode'], a['stderr'][-1500:]), 'case': a['case']})

  reproduced = {}
  new_violations = []
  for v in agg['violations']:
    if v['key'] is not None and v['key'] in known:
      reproduced.setdefault(v['key'], []).append(v)
    else:
      new_violations.append(v)

  if hasattr(mod, 'finalize'):
    inconclusive.extend(mod.finalize(agg, tier) or [])
  for w in agg['watchdog']:
    inconclusive.append('watchdog fired on shard %d after %.0fs' % (w['shard'], w['wall_s']))
  nontriv = len(agg['nontrivial'])
  min_nt = getattr(mod, 'MIN_NONTRIVIAL', 2)
  if nontriv < min_nt:
    inconclusive.append('only %d distinct non-trivial cases (< %d)' % (nontriv, min_nt))

  replay_dir = os.environ.get('VERIF_REPLAY_DIR') or os.path.join(ROOT, 'replay')
  os.makedirs(replay_dir, exist_ok=True)
  for key, vs in sorted(reproduced.items()):
    lines.append('KNOWN-FINDING: property=%s %s: %s (%d witnesses this run)' % (
        prop, key, known[key].get('what_fails', ''), len(vs)))
  seen = set()
  for v in new_violations:
    h = stable_hash(v['witness'])
    if h in seen:
      continue
    seen.add(h)
    path = os.path.join(replay_dir, '%s-%s.json' % (prop, h))
    with open(path, 'w') as f:
      json.dump({'property': prop, 'key': v['key'], 'what': v['what'], 'witness': v['witness']}, f, indent=1, default=str)
    lines.append('VIOLATION property=%s replay=%s' % (prop, path))
    lines.append('  what: %s%s' % (v['what'][:400], (' [mechanism %s]' % v['key']) if v['key'] else ''))
    exit_code = 1

  harness_broken = bool(agg['shard_failures'])
  if harness_broken and exit_code == 0:
    exit_code = 3
    for f in agg['shard_failures'][:3]:
      lines.append('HARNESS-ERROR property=%s shard=%s %s' % (prop, f['shard'], (f['error'] or '')[-1500:]))
  if inconclusive and exit_code == 0:
    exit_code = 2
    for r in inconclusive:
      lines.append('INCONCLUSIVE property=%s reason=%s' % (prop, r))

  cov = {
      'evaluations': agg['evaluations'],
      'distinct_nontrivial': nontriv,
      'rule': mod.RULE,
      'samples': agg['samples'][:6] or [{'note': 'no sample recorded'}],
      'counters': dict(sorted(agg['counters'].items())),
      'shards': agg['shards'],
      'hash_seeds': sorted(h for h in agg['hashseeds'] if h is not None)[:32],
      'known_findings_reproduced': {k: len(v) for k, v in sorted(reproduced.items())},
      'inconclusive_reasons': inconclusive,
      'watchdog_fired': len(agg['watchdog']),
      'process_aborts': len(agg['aborts']),
      'repo': repo.repo_root(),
  }
  if agg['tables']:
    cov['tables'] = agg['tables']
  if agg['notes']:
    cov['notes'] = agg['notes'][:20]
  if getattr(mod, 'EXHAUSTIVE', None) is not None:
    ex = mod.EXHAUSTIVE(tier) if callable(mod.EXHAUSTIVE) else mod.EXHAUSTIVE
    cov['exhaustive'] = bool(ex)
  if hasattr(mod, 'coverage_extra'):
    cov.update(mod.coverage_extra(agg, tier) or {})
  ev = {
      'property_id': prop, 'tier': tier, 'seed': seed,
      'level': getattr(mod, 'LEVEL', 'exploration'),
      'coverage': cov, 'assumptions': list(mod.ASSUMPTIONS), 'wall_s': round(wall, 2),
      'violations': len(seen),
  }
  if os.environ.get('VERIF_NO_EVIDENCE') != '1':
    ev_dir = os.path.join(ROOT, 'evidence')
    os.makedirs(ev_dir, exist_ok=True)
    tmp = os.path.join(ev_dir, prop + '.json.tmp')
    with open(tmp, 'w') as f:
      json.dump(ev, f, indent=1, default=str, sort_keys=False)
    os.replace(tmp, os.path.join(ev_dir, prop + '.json'))

  verdict = {0: 'HELD', 1: 'VIOLATED', 2: 'INCONCLUSIVE', 3: 'HARNESS-ERROR'}[exit_code]
  for l in lines:
    print(l)
  print('%s property=%s tier=%s seed=%d evaluations=%d distinct_nontrivial=%d known=%d wall=%.1fs' % (
      verdict, prop, tier, seed, agg['evaluations'], nontriv, len(reproduced), wall))
  key_counters = getattr(mod, 'REPORT_COUNTERS', None)
  if key_counters:
    print('  observed: ' + ', '.join('%s=%s' % (k, agg['counters'].get(k, 0)) for k in key_counters))
  sys.stdout.flush()
  return exit_code


def replay(prop, path):
  repo.setup_path()
  mod = importlib.import_module('vf.checks.' + prop.lower())
  with open(path) as f:
    w = json.load(f)
  still, text = mod.replay(w['witness'])
  print(text)
  if still:
    print('VIOLATION property=%s replay=%s' % (prop, path))
    return 1
  print('replay: the witness no longer violates property %s' % prop)
  return 0
