"""Shard side: context handed to a check's run_shard(), and the shard process entry point.

A shard journals the case it is about to run (so that a crash is attributed to the right input),
collects counters / samples / violations, and writes one JSON summary at the end.
"""
import hashlib
import importlib
import json
import os
import random
import sys
import time
import traceback


def stable_hash(obj):
  s = obj if isinstance(obj, str) else json.dumps(obj, sort_keys=True, default=str)
  return hashlib.sha256(s.encode('utf-8', 'surrogatepass')).hexdigest()[:16]


def derive_seed(*parts):
  h = hashlib.sha256('|'.join(str(p) for p in parts).encode()).digest()
  return int.from_bytes(h[:8], 'big')


class Ctx:
  """What a shard sees."""

  MAX_SAMPLES = 6
  MAX_VIOLATIONS = 40

  def __init__(self, prop, tier, seed, shard, nshards, journal_path=None, params=None):
    self.prop = prop
    self.tier = tier
    self.seed = seed
    self.shard = shard
    self.nshards = nshards
    self.params = params or {}
    self.rng = random.Random(derive_seed(seed, prop, tier, shard))
    self.evaluations = 0
    self.nontrivial = set()
    self.counters = {}
    self.samples = []
    self.violations = []
    self.violations_dropped = 0
    self.notes = []
    self.tables = {}
    self._journal_path = journal_path
    self._journal = open(journal_path, 'w') if journal_path else None
    self.t0 = time.time()
    self.deadline = None

  # -- bookkeeping -------------------------------------------------------------------------
  def journal(self, case):
    """Record the case about to be run (for crash attribution)."""
    if self._journal:
      self._journal.seek(0)
      self._journal.truncate()
      self._journal.write(json.dumps(case, default=str))
      self._journal.flush()

  def case(self, key, nontrivial, n=1):
    """One evaluated case. key: anything hashable-by-json identifying the case."""
    self.evaluations += n
    if nontrivial:
      self.nontrivial.add(key if isinstance(key, str) and len(key) == 16 else stable_hash(key))

  def count(self, name, k=1):
    self.counters[name] = self.counters.get(name, 0) + k

  def table(self, table, row, col, k=1):
    t = self.tables.setdefault(table, {})
    r = t.setdefault(str(row), {})
    r[str(col)] = r.get(str(col), 0) + k

  def sample(self, obj, force=False):
    if force or len(self.samples) < self.MAX_SAMPLES:
      self.samples.append(obj)

  def violation(self, key, what, witness):
    """key: mechanism key (string) if the check can classify the failure, else None."""
    if len(self.violations) >= self.MAX_VIOLATIONS:
      # keep at least one witness per distinct key
      if any(v['key'] == key for v in self.violations):
        self.violations_dropped += 1
        self.count('violations_dropped')
        return
    w = dict(witness)
    w.setdefault('property', self.prop)
    w.setdefault('tier', self.tier)
    w.setdefault('seed', self.seed)
    w.setdefault('shard', self.shard)
    w.setdefault('hashseed', os.environ.get('PYTHONHASHSEED'))
    self.violations.append({'key': key, 'what': what, 'witness': w})

  def note(self, text):
    if len(self.notes) < 20:
      self.notes.append(text)

  def out_of_time(self):
    return self.deadline is not None and time.time() > self.deadline

  def result(self):
    return {
        'shard': self.shard, 'evaluations': self.evaluations,
        'nontrivial': sorted(self.nontrivial), 'counters': self.counters,
        'samples': self.samples, 'violations': self.violations, 'notes': self.notes,
        'tables': self.tables, 'wall_s': time.time() - self.t0,
        'hashseed': os.environ.get('PYTHONHASHSEED'),
    }


def main(argv):
  prop, tier, seed, shard, nshards, out_path = argv[:6]
  params = json.loads(argv[6]) if len(argv) > 6 else {}
  seed, shard, nshards = int(seed), int(shard), int(nshards)
  from vf.core import repo
  repo.setup_path()
  try:
    import resource
    gb = float(params.get('rlimit_as_gb', 6))
    # AddressSanitizer reserves terabytes of shadow address space: no address-space limit under the sanitizer build
    if gb > 0 and 'asan' not in os.environ.get('LD_PRELOAD', ''):
      resource.setrlimit(resource.RLIMIT_AS, (int(gb * (1 << 30)), int(gb * (1 << 30))))
  except Exception:
    pass
  mod = importlib.import_module('vf.checks.' + prop.lower())
  ctx = Ctx(prop, tier, seed, shard, nshards, journal_path=out_path + '.journal', params=params)
  budget = params.get('shard_budget_s')
  if budget:
    ctx.deadline = time.time() + budget
  status = 'ok'
  err = None
  try:
    mod.run_shard(ctx)
  except BaseException as e:  # harness failure inside the shard: broken check, not a verdict
    status = 'harness_error'
    err = ''.join(traceback.format_exception(type(e), e, e.__traceback__))[-6000:]
  res = ctx.result()
  res['status'] = status
  res['error'] = err
  tmp = out_path + '.tmp'
  with open(tmp, 'w') as f:
    json.dump(res, f, default=str)
  os.replace(tmp, out_path)
  return 0


if __name__ == '__main__':
  sys.exit(main(sys.argv[1:]))
