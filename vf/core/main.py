"""./check <ID> [--tier quick|thorough] [--replay FILE] [--seed N]"""
import argparse
import os
import sys

from vf.core import runner


def main(argv=None):
  ap = argparse.ArgumentParser(prog='check')
  ap.add_argument('prop')
  ap.add_argument('--tier', default=os.environ.get('VERIF_TIER') or 'quick', choices=['quick', 'thorough'])
  ap.add_argument('--seed', type=int, default=None)
  ap.add_argument('--replay', default=None)
  ap.add_argument('--keep', action='store_true')
  a = ap.parse_args(argv)
  prop = a.prop.upper()
  if a.replay:
    return runner.replay(prop, a.replay)
  seed = a.seed
  if seed is None:
    try:
      seed = int(os.environ.get('VERIF_SEED', '0') or 0)
    except ValueError:
      seed = 0
  return runner.run_check(prop, a.tier, seed, keep_out=a.keep)


if __name__ == '__main__':
  sys.exit(main())
